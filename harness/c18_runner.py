"""Child-process side of C18 (stdlib only; run with `python -I -S`).

  --dump ROOT MOD...        what each module really exports: {mod: {"names": [...], "star": [...]}}
  --run ROOT path FILE      execute FILE as a script with ROOT first on sys.path and cwd = ROOT
  --run ROOT module NAME    import NAME (a member of a package in ROOT)

see(tag, obj) is injected into builtins; every call records (tag, descriptor(obj)). Descriptors identify an object
across processes: modules by name and file, functions / classes by (__module__, __qualname__), everything else by
type and repr (the worlds give every constant a unique value).
"""
import builtins
import importlib
import json
import os
import re
import runpy
import sys
import types


def describe(o, depth=0):
    if isinstance(o, types.ModuleType):
        return ["module", o.__name__, os.path.basename(getattr(o, "__file__", "") or "")]
    if isinstance(o, (types.FunctionType, types.BuiltinFunctionType, type, types.MethodType)):
        return ["def", getattr(o, "__module__", None), getattr(o, "__qualname__", None)]
    if isinstance(o, (list, tuple)) and depth < 3:
        return ["seq", type(o).__name__, [describe(x, depth + 1) for x in o[:12]]]
    return ["value", type(o).__name__, re.sub(r"0x[0-9a-fA-F]+", "0x", repr(o))[:200]]


def main():
    mode, root = sys.argv[1], sys.argv[2]
    os.chdir(root)
    sys.path.insert(0, root)
    sys.dont_write_bytecode = True
    if mode == "--dump":
        out = {}
        for mod in sys.argv[3:]:
            try:
                m = importlib.import_module(mod)
            except Exception as exc:  # a world module that cannot be imported: the clients will avoid it
                out[mod] = {"error": type(exc).__name__}
                continue
            ns = {}
            try:
                exec(f"from {mod} import *", ns)
            except Exception as exc:
                ns = {"__error__": type(exc).__name__}
            out[mod] = {"names": sorted(n for n in vars(m) if not n.startswith("__")), "star": sorted(n for n in ns if not n.startswith("__"))}
        print(json.dumps(out))
        return
    events = []

    def see(tag, obj):
        events.append([tag, describe(obj)])
        return obj

    builtins.see = see
    status, message = "ok", ""
    try:
        if sys.argv[3] == "path":
            runpy.run_path(sys.argv[4], run_name="__main__")
        else:
            importlib.import_module(sys.argv[4])
    except SystemExit:
        status = "exit"
    except BaseException as exc:  # noqa: BLE001
        status, message = "exc:" + type(exc).__name__, str(exc)[:300]
    sys.stdout.write("\n@@C18@@" + json.dumps({"status": status, "message": message, "events": events}) + "\n")


main()
