"""C01 - whole-pipeline refactoring preserves program behaviour.

Oracle: execution oracle on (p, format_code(p, **options)) for in-class programs of the idiom generator (compositions
and single families) under the option combinations; a divergence is attributed to the first pipeline step whose output
behaves differently from its own input (step trace), which is what the known-finding classifiers look at.
"""
from __future__ import annotations

import ast

from .. import env, verdict
from . import c02

PROP = "C01"
OPTIONS = [{}, {"safe": True}, {"keep_imports": True}, {"safe": True, "keep_imports": True}, {"max_line_length": 60}, {"max_line_length": 200, "safe": True}, {"preserve": "half"}, {"preserve": "all"}]


def bound_names(text):
    try:
        tree = ast.parse(text)
    except SyntaxError:
        return []
    names = set()
    for n in ast.walk(tree):
        if isinstance(n, (ast.FunctionDef, ast.AsyncFunctionDef, ast.ClassDef)):
            names.add(n.name)
        elif isinstance(n, ast.Name) and isinstance(n.ctx, ast.Store):
            names.add(n.id)
    return sorted(names)


# --------------------------------------------------------------------------------- worker side
def w_pipeline(arg):
    from .. import hooks, oracle_exec, trace

    res = {"programs": 0, "in_class": 0, "rejects": 0, "changed": 0, "ast_changed": 0, "violations": [], "nontrivial": [], "samples": [], "crashed": 0, "attributed": 0,
           "steps_executed": 0}
    for case in arg["cases"]:
        text = case["text"]
        res["programs"] += 1
        base = oracle_exec.run_program(text)
        if not oracle_exec.in_class(text, base):
            res["rejects"] += 1
            continue
        res["in_class"] += 1
        opts = dict(case.get("options") or {})
        if opts.get("preserve") in ("half", "all"):
            names = bound_names(text)
            r = env.rng(PROP, "preserve", case["id"])
            opts["preserve"] = names if opts["preserve"] == "all" else r.sample(names, len(names) // 2)
        out, crash, steps = trace.traced_format(text, opts)
        if crash:
            res["crashed"] += 1
            continue
        if out == text:
            continue
        res["changed"] += 1
        try:
            if ast.dump(ast.parse(out)) != ast.dump(ast.parse(text)):
                res["ast_changed"] += 1
                res["nontrivial"].append(env.digest(text + repr(sorted((k, str(v)) for k, v in opts.items()))))
        except SyntaxError:
            pass
        after = oracle_exec.run_program(out, cpu_s=oracle_exec.budget_for(base))
        if not oracle_exec.agrees(base, after):
            att = trace.attribute(steps)
            res["steps_executed"] += len(steps)
            detail = {"options": {k: (v if not isinstance(v, list) else v[:20]) for k, v in opts.items()}, "idioms": case.get("idioms"), "before_stdout": base[1][-400:],
                      "after_status": after[0], "after_stdout": after[1][-400:], "first_difference": c02._first_diff(base[1], after[1]), "out": out[-1500:]}
            if att:
                res["attributed"] += 1
                detail.update({"attributed_rule": att["rule"], "step_before": att["before"], "step_after": att["after"], "text_diff": c02._text_diff(att["before"], att["after"]),
                               "final_status": after[0], "after_status": att["after_status"]})  # classifiers judge the attributed step, so its own status is recorded
                if att["after_status"] == "exc:NameError":
                    detail["agrees_after_add_missing_imports"] = False  # inside the pipeline the import step did run
            if len(res["violations"]) < 40:
                res["violations"].append({"kind": "program_behaves_differently", "rule": "main.format_code", "input": text, "detail": detail,
                                          "replay": {"fn": "harness.checks.c01:w_pipeline", "arg": {"cases": [case]}}})
        elif len(res["samples"]) < 1 and len(text) < 700 and res["ast_changed"]:
            res["samples"].append({"options": case.get("options"), "input": text, "output": out, "stdout": base[1][:200], "text_changing_steps": [s["rule"] for s in steps]})
    return res


# --------------------------------------------------------------------------------- parent side
def main() -> int:
    from .. import pool
    from ..gen import programs

    v = verdict.Verdict(PROP)
    thorough = env.tier() == "thorough"
    cases = []
    for i in range(6000 if thorough else 420):
        text, names = programs.program((env.seed(), "C01", i))
        cases.append({"id": f"G1:{i}", "text": text, "idioms": names, "options": OPTIONS[i % len(OPTIONS)]})
    per = 60 if thorough else 6
    for name in programs.IDIOMS:
        for i in range(per):
            text, names = programs.program((env.seed(), "C01-G2", name, i), n_idioms=2, only=name)
            cases.append({"id": f"G2:{name}:{i}", "text": text, "idioms": names, "options": OPTIONS[(i + len(name)) % len(OPTIONS)]})
    tot = {}
    with pool.Pool() as p:
        verdict.run_witnesses(v, p)
        reps = p.map("harness.checks.c01:w_pipeline", [{"cases": cases[i:i + 4]} for i in range(0, len(cases), 4)], cpu_s=1800)
        verdict.pool_failures(v, reps, "C01 pipeline")
        for rep in reps:
            if rep.get("status") == "ok":
                c02._merge(tot, rep["value"])
    v.extend(tot.get("violations", []))
    if tot.get("ast_changed", 0) == 0:
        v.inconclusive_because("format_code changed the tree of no in-class program")
    if tot.get("in_class", 0) < 0.5 * max(1, tot.get("programs", 0)):
        v.inconclusive_because("more than half of the generated programs were rejected by the class filter")
    if tot.get("crashed", 0) > 0.5 * max(1, tot.get("in_class", 0)):
        v.inconclusive_because("more than half of the format_code calls crashed (see C04)")
    cov = {
        "evaluations": tot.get("in_class", 0),
        "distinct_nontrivial": len(set(tot.get("nontrivial", []))),
        "rule": "a case = one in-class program through format_code under one option vector, both versions executed; non-trivial = the formatter changed the AST "
                "(not only the layout); distinct by digest of (program, options)",
        "samples": tot.get("samples", [])[:2] or [{"note": "none"}],
        "programs": {k: tot.get(k) for k in ("programs", "in_class", "rejects", "changed", "ast_changed", "crashed")},
        "divergences_attributed_to_a_step": tot.get("attributed"),
        "option_vectors": OPTIONS,
    }
    return v.finish(cov, assumptions=["stdout and normal termination are compared; stderr and timing are not", "class restrictions of the generator (closed, deterministic, terminating, non-introspective)"])


def replay(rec) -> int:
    return verdict.generic_replay(PROP, rec)
