"""C02 - every individual rewrite rule preserves program behaviour.

Oracle: execution oracle on (p, rule(p)) for every pipeline rule applied alone to in-class programs of the idiom
families (G2: one family per rule, parameters on and around the side conditions; G1: compositions), plus every
text-changing top-level step of format_code traces on the same programs.
"""
from __future__ import annotations

import ast

from .. import env, verdict

PROP = "C02"


# --------------------------------------------------------------------------------- worker side
def w_rules(arg):
    from .. import hooks, oracle_exec, tasks, trace

    m = hooks.mods()
    rules = hooks.pipeline_rules()
    rf = hooks.rule_functions()
    res = {"programs": 0, "in_class": 0, "rejects": 0, "rule_calls": 0, "changed": 0, "violations": [], "nontrivial": [], "samples": [], "fired": {}, "crashed": {},
           "trace_steps": 0, "reject_reasons": {}}
    for case in arg["cases"]:
        text = case["text"]
        res["programs"] += 1
        try:
            ast.parse(text)
        except (SyntaxError, ValueError):
            res["rejects"] += 1
            res["reject_reasons"]["syntax"] = res["reject_reasons"].get("syntax", 0) + 1
            continue
        base = oracle_exec.run_program(text)
        if not oracle_exec.in_class(text, base):
            res["rejects"] += 1
            res["reject_reasons"][base[0]] = res["reject_reasons"].get(base[0], 0) + 1
            continue
        res["in_class"] += 1
        seen_outputs = {}
        pairs = []
        for key in rules:
            qual = f"{key[0]}.{key[1]}"
            if arg.get("only_rules") and qual not in arg["only_rules"]:
                continue
            try:
                out = hooks.call_rule(rf[key], text)
            except Exception as exc:
                res["crashed"][qual] = res["crashed"].get(qual, 0) + 1
                continue
            res["rule_calls"] += 1
            if isinstance(out, str) and out != text:
                pairs.append((qual, text, out, base, False))
        if arg.get("trace", True):
            out, crash, steps = trace.traced_format(text, case.get("options"))
            cache = {text: base}
            for st in steps:
                if st["in"] == text or st["rule"].startswith("processing.chain["):
                    continue  # already covered by the isolated call / a chained step (its parts are rules of their own; C01 attributes it)
                if st["in"] not in cache:
                    cache[st["in"]] = oracle_exec.run_program(st["in"])
                b = cache[st["in"]]
                if b[0] != "ok":
                    continue
                res["trace_steps"] += 1
                pairs.append((st["rule"], st["in"], st["out"], b, True))
        for qual, before, after, b, in_trace in pairs:
            res["changed"] += 1
            res["fired"][qual] = res["fired"].get(qual, 0) + 1
            res["nontrivial"].append(env.digest(qual + before))
            if after not in seen_outputs:
                seen_outputs[after] = oracle_exec.run_program(after, cpu_s=oracle_exec.budget_for(b))
            a = seen_outputs[after]
            if not oracle_exec.agrees(b, a):
                fixed_by_imports = None
                if a[0] == "exc:NameError":
                    try:
                        again = oracle_exec.run_program(m["fixes"].add_missing_imports(after), cpu_s=oracle_exec.budget_for(b))
                        fixed_by_imports = oracle_exec.agrees(b, again)
                    except Exception:
                        fixed_by_imports = False
                if len(res["violations"]) < 60:
                    res["violations"].append({
                        "kind": "step_changes_behaviour", "rule": qual, "input": before, "before": before, "after": after,
                        "detail": {"idioms": case.get("idioms"), "in_pipeline_trace": in_trace, "before_stdout": b[1][-500:], "after_status": a[0], "after_stdout": a[1][-500:],
                                   "first_difference": _first_diff(b[1], a[1]), "text_diff": _text_diff(before, after),
                                   "agrees_after_add_missing_imports": fixed_by_imports},
                        "replay": {"fn": "harness.checks.c02:w_rules", "arg": {"cases": [case], "only_rules": None if in_trace else [qual], "trace": in_trace}}})
                else:
                    res["truncated"] = res.get("truncated", 0) + 1
            elif len(res["samples"]) < 1 and len(before) < 500:
                res["samples"].append({"rule": qual, "before": before, "after": after, "stdout": b[1][:200]})
    return res


def _first_diff(a, b):
    la, lb = a.splitlines(), b.splitlines()
    for i in range(max(len(la), len(lb))):
        x = la[i] if i < len(la) else "<missing>"
        y = lb[i] if i < len(lb) else "<missing>"
        if x != y:
            return {"line": i + 1, "before": x[:160], "after": y[:160]}
    return None


def _text_diff(a, b):
    import difflib

    return "\n".join(list(difflib.unified_diff(a.splitlines(), b.splitlines(), lineterm="", n=1))[2:40])


# --------------------------------------------------------------------------------- parent side
def build_cases(thorough, per_family=None):
    from ..gen import programs

    cases = []
    per_family = per_family or (140 if thorough else 14)
    for name in programs.IDIOMS:
        for i in range(per_family):
            text, names = programs.program((env.seed(), "G2", name, i), n_idioms=1, only=name)
            cases.append({"id": f"G2:{name}:{i}", "text": text, "idioms": names, "options": {}})
    # some rules only look at module level: every family also unwrapped
    for name in programs.IDIOMS:
        for i in range(30 if thorough else 4):
            text, names = programs.program((env.seed(), "G2m", name, i), n_idioms=1, only=name, wrap="module")
            cases.append({"id": f"G2m:{name}:{i}", "text": text, "idioms": names, "options": {}})
    for i in range(1500 if thorough else 110):
        text, names = programs.program((env.seed(), "G1", i))
        cases.append({"id": f"G1:{i}", "text": text, "idioms": names, "options": [{}, {"safe": True}, {"keep_imports": True}][i % 3]})
    return cases


def main() -> int:
    from .. import pool

    v = verdict.Verdict(PROP)
    thorough = env.tier() == "thorough"
    cases = build_cases(thorough)
    tot = {}
    with pool.Pool() as p:
        verdict.run_witnesses(v, p)
        reps = p.map("harness.checks.c02:w_rules", [{"cases": cases[i:i + 3]} for i in range(0, len(cases), 3)], cpu_s=1800)
        verdict.pool_failures(v, reps, "C02 rules")
        for rep in reps:
            if rep.get("status") == "ok":
                _merge(tot, rep["value"])
        rules = p.map("harness.checks.c05:w_rules", [None])[0].get("value") or []
    v.extend(tot.get("violations", []))
    fired = tot.get("fired", {})
    all_rules = [f"{a}.{b}" for a, b in rules]
    never = sorted(r for r in all_rules if r not in fired)
    if tot.get("changed", 0) == 0:
        v.inconclusive_because("no rule changed any in-class program")
    if tot.get("in_class", 0) < 0.5 * max(1, tot.get("programs", 0)):
        v.inconclusive_because("more than half of the generated programs were rejected by the class filter (generator problem)")
    cov = {
        "evaluations": tot.get("rule_calls", 0) + tot.get("trace_steps", 0),
        "distinct_nontrivial": len(set(tot.get("nontrivial", []))),
        "rule": "a case = one rule applied to one in-class program (alone, or as a step of a format_code trace); non-trivial = the rule changed the text, so both "
                "versions were executed; distinct by (rule, program) digest",
        "samples": tot.get("samples", [])[:3] or [{"note": "none"}],
        "programs": {k: tot.get(k) for k in ("programs", "in_class", "rejects", "reject_reasons")},
        "rule_calls": tot.get("rule_calls"), "text_changing_steps_executed": tot.get("changed"), "trace_steps": tot.get("trace_steps"),
        "rules_fired_and_validated": len(fired), "rules_in_pipeline": len(all_rules), "rules_never_fired": never, "fired_per_rule": fired, "rule_crashes": tot.get("crashed"),
    }
    return v.finish(cov, assumptions=["programs are closed, deterministic, terminating and non-introspective by construction and filtered by two runs of the original",
                                      "numpy rules are judged against the real numpy from the offline wheelhouse"])


def _merge(total, part):
    for k, val in part.items():
        if isinstance(val, bool):
            continue
        if isinstance(val, int):
            total[k] = total.get(k, 0) + val
        elif isinstance(val, list):
            total.setdefault(k, []).extend(val)
        elif isinstance(val, dict):
            d = total.setdefault(k, {})
            for kk, vv in val.items():
                d[kk] = d.get(kk, 0) + vv


def replay(rec) -> int:
    return verdict.generic_replay(PROP, rec)
