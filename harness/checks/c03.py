"""C03 - valid Python in, valid Python out; never write a broken file.

Monitors: ast.parse post-condition on format_code, on every rule step inside the pipeline (H-rule, all nesting
depths), on every pipeline rule called in isolation and on sub(); for format_file the H-io audit hook (open-for-write
events on the target) plus bytes/mtime before and after, driven by a fault enumeration of the write guard (format_code
replaced by a stub returning prescribed texts) and by real runs.
"""
from __future__ import annotations

import ast
import os

from .. import env, verdict

PROP = "C03"


# --------------------------------------------------------------------------------- worker side
def w_valid(arg):
    from .. import hooks, pipeline

    m = hooks.mods()
    res = {"cases": 0, "steps_checked": 0, "steps_changed": 0, "isolated_calls": 0, "isolated_changed": 0, "crashed": 0,
           "violations": [], "nontrivial": [], "samples": [], "rules_changed": {}}
    rules = hooks.pipeline_rules()
    rf = hooks.rule_functions()
    for case in arg["cases"]:
        text = case["text"]
        if not pipeline.valid_fragment(text):
            continue
        res["cases"] += 1
        replay = {"fn": "harness.checks.c03:w_valid", "arg": {"cases": [case], "isolated": arg.get("isolated", True)}}
        obs = pipeline.observe_format(text, case.get("options"), want=("rule",))
        if obs["crash"]:
            res["crashed"] += 1
        elif not pipeline.valid_fragment(obs["out"]):
            res["violations"].append({"kind": "format_code_output_invalid", "input": text, "detail": {"options": case.get("options"), "out": obs["out"][-1500:]}, "replay": replay})
        elif pipeline.compiles(text) and not pipeline.compiles(obs["out"]):
            # parses, but is not a module the compiler accepts (a return that ended up outside its function, a break outside its loop)
            res["violations"].append({"kind": "format_code_output_does_not_compile", "input": text, "detail": {"options": case.get("options"), "out": obs["out"][-1500:]}, "replay": replay})
        for st in obs["steps"]:
            if st["out"] is None or not pipeline.valid_fragment(st["in"]):
                continue
            res["steps_checked"] += 1
            if st["out"] != st["in"]:
                res["steps_changed"] += 1
                res["rules_changed"][st["rule"]] = res["rules_changed"].get(st["rule"], 0) + 1
                res["nontrivial"].append(env.digest(st["rule"] + st["in"]))
                if not pipeline.valid_fragment(st["out"]) or (pipeline.compiles(st["in"]) and not pipeline.compiles(st["out"])):
                    res["violations"].append({"kind": "rule_output_invalid", "rule": st["rule"], "input": st["in"], "detail": {"out": st["out"][-1500:], "in_pipeline": True}, "replay": replay})
        if arg.get("isolated", True) and pipeline.valid(text):
            for key in rules:
                fn = rf[key]
                qual = f"{key[0]}.{key[1]}"
                try:
                    out = hooks.call_rule(fn, text)
                except Exception:
                    res["crashed"] += 1
                    continue
                res["isolated_calls"] += 1
                if isinstance(out, str) and out != text:
                    res["isolated_changed"] += 1
                    res["nontrivial"].append(env.digest(qual + text))
                    if not pipeline.valid(out) or (pipeline.compiles(text) and not pipeline.compiles(out)):
                        res["violations"].append({"kind": "rule_output_invalid", "rule": qual, "input": text, "detail": {"out": out[-1500:], "in_pipeline": False}, "replay": replay})
                    elif len(res["samples"]) < 1 and len(text) < 300:
                        res["samples"].append({"rule": qual, "in": text, "out": out})
    return res


def w_sub(arg):
    from .. import hooks, pipeline

    pm = hooks.mods()["pattern_matching"]
    res = {"sub_calls": 0, "sub_changed": 0, "violations": [], "nontrivial": []}
    for case in arg["cases"]:
        if not pipeline.valid(case["source"]):
            continue
        try:
            out = pm.sub(case["pattern"], case["repl"], case["source"], case.get("count", 0))
        except Exception:
            continue
        res["sub_calls"] += 1
        if out != case["source"]:
            res["sub_changed"] += 1
            res["nontrivial"].append(env.digest(case["pattern"] + case["repl"] + case["source"]))
            if not pipeline.valid(out):
                res["violations"].append({"kind": "sub_output_invalid", "input": case["source"], "detail": {"pattern": case["pattern"], "repl": case["repl"], "out": out[-1000:]},
                                          "replay": {"fn": "harness.checks.c03:w_sub", "arg": {"cases": [case]}}})
    return res


def w_direct(arg):
    """Fault injection at the direct editing API: replacements / removals / additions that would break the syntax."""
    from .. import hooks, pipeline

    proc = hooks.mods()["processing"]
    res = {"direct_calls": 0, "direct_invalid_candidates": 0, "violations": [], "nontrivial": []}
    for case in arg["cases"]:
        source = case["source"]
        tree = ast.parse(source)
        nodes = [n for n in ast.walk(tree) if isinstance(n, (ast.stmt, ast.expr)) and hasattr(n, "lineno")
                 and not isinstance(getattr(n, "ctx", None), (ast.Store, ast.Del))]
        r = env.rng(PROP, "direct", case["id"])
        if not nodes:  # an empty module (comments only): nothing to edit
            continue
        for k in range(case.get("n", 6)):
            node = r.choice(nodes)
            is_stmt = isinstance(node, ast.stmt)
            bad = r.random() < 0.6
            if bad:
                new = r.choice(["(", "x +", "def", ")", "1 1", "if:", "[1,"])
            else:
                new = "zz = 1" if is_stmt else "zz"
            api = r.choice(["_replace_nodes", "alter_code", "remove_nodes", "fix", "chain"]) if is_stmt else r.choice(["_replace_nodes", "alter_code", "fix", "chain"])
            try:
                if api in ("fix", "chain"):
                    def rule(source, _node=node, _new=new, _orig=source):
                        if source == _orig:
                            yield _node, _new

                    out = proc.fix(rule, max_iter=1)(source) if api == "fix" else proc.chain([rule], max_iter=1)(source)
                elif api == "_replace_nodes":
                    out = proc._replace_nodes(source, {node: new})
                elif api == "alter_code":
                    out = proc.alter_code(source, tree, replacements={node: new})
                else:
                    out = proc.remove_nodes(source, [node], tree)
            except Exception as exc:
                res["direct_calls"] += 1
                continue
            res["direct_calls"] += 1
            if bad:
                res["direct_invalid_candidates"] += 1
            if out != source:
                res["nontrivial"].append(env.digest(api + new + source + str(getattr(node, "lineno", 0)) + str(getattr(node, "col_offset", 0))))
            if api != "remove_nodes" and not pipeline.valid(out):
                res["violations"].append({"kind": "direct_edit_output_invalid", "rule": "processing." + api, "input": source,
                                          "detail": {"replacement": new, "target": ast.unparse(node)[:100], "out": out[-800:]},
                                          "replay": {"fn": "harness.checks.c03:w_direct", "arg": {"cases": [case]}}})
    return res


VALID = "import os\n\n\ndef f(x):\n    return os.sep + str(x)\n\n\nprint(f(1))\n"
VALID2 = "import os\n\n\ndef f(x):\n    return str(x) + os.sep\n\n\nprint(f(2))\n"
INVALID = "def f(x:\n    return (\n"
INVALID2 = "def g(x:\n  return [\n"
SKIP = "# pyrefact: skip_file\nimport os\nx = 1\n"


def w_guard(arg):
    """Fault enumeration of format_file's write guard: format_code is replaced by a stub returning a prescribed text."""
    import pathlib
    import shutil
    import sys
    import tempfile

    from .. import hooks

    m = hooks.mods()
    main = m["main"]
    res = {"guard_cases": 0, "writes_seen": 0, "violations": [], "nontrivial": []}
    events = []

    def audit(event, args):
        if event == "open" and ACTIVE[0]:
            mode = args[1] if len(args) > 1 else ""
            if isinstance(mode, str) and any(c in mode for c in "wax+"):
                events.append(str(args[0]))

    ACTIVE = [False]
    if not getattr(w_guard, "_hooked", False):
        sys.addaudithook(audit)
        w_guard._hooked = True
        w_guard._events, w_guard._active = events, ACTIVE
    events, ACTIVE = w_guard._events, w_guard._active
    tmp = pathlib.Path(tempfile.mkdtemp(prefix="c03guard-"))
    real_format_code = main.format_code
    try:
        for case in arg["cases"]:
            initial, returned, safe = case["initial"], case["returned"], case["safe"]
            path = tmp / case.get("name", "mod.py")
            path.write_text(initial, encoding="utf-8")
            os.utime(path, ns=(10**18, 10**18))
            before_stat = path.stat()
            if returned is not None:
                main.format_code = lambda source, **kw: returned
            else:
                main.format_code = real_format_code
            del events[:]
            ACTIVE[0] = True
            try:
                try:
                    rv = main.format_file(path, safe=safe)
                    exc = None
                except Exception as e:
                    rv, exc = None, f"{type(e).__name__}: {e}"
            finally:
                ACTIVE[0] = False
                main.format_code = real_format_code
            after = path.read_text(encoding="utf-8")
            st = path.stat()
            wrote = any(os.path.realpath(p) == os.path.realpath(str(path)) for p in events) or st.st_mtime_ns != before_stat.st_mtime_ns or st.st_ino != before_stat.st_ino
            res["guard_cases"] += 1
            res["writes_seen"] += bool(wrote)
            res["nontrivial"].append(env.digest(repr((initial, returned, safe))))
            expected_text = returned if returned is not None else None

            def viol(kind, extra=None):
                res["violations"].append({"kind": kind, "input": initial, "detail": dict({"returned_by_format_code": returned, "file_after": after, "return_value": rv, "safe": safe,
                                                                                         "wrote": wrote, "exc": exc}, **(extra or {})),
                                          "replay": {"fn": "harness.checks.c03:w_guard", "arg": {"cases": [case]}}})

            if exc is not None:
                viol("format_file_raised")
                continue
            initial_valid, after_valid = _valid(initial), _valid(after)
            if initial_valid and not after_valid:
                viol("valid_file_replaced_by_invalid_one")
            if returned is not None and returned == initial and wrote:
                viol("unchanged_file_rewritten")
            if returned is not None and returned == initial and rv:
                viol("unchanged_file_reported_as_changed")
            if after != initial and expected_text is not None and after != expected_text:
                viol("file_content_is_neither_old_nor_new")
            if returned is None:
                # real formatter: compare with format_code on the same content
                want = real_format_code(initial, safe=safe, keep_imports=path.name == "__init__.py")
                if want == initial and wrote:
                    viol("unchanged_file_rewritten", {"real": True})
                if after != initial and after != want:
                    viol("file_content_is_neither_old_nor_new", {"real": True})
    finally:
        main.format_code = real_format_code
        shutil.rmtree(tmp, ignore_errors=True)
    return res


def w_fault(arg):
    """Faults while format_file writes: the file size limit of the process is lowered to k bytes (RLIMIT_FSIZE with SIGXFSZ ignored: the kernel
    refuses every byte past k with EFBIG, which is what a full disk or an exhausted quota looks like to the writer), format_file is called and may
    raise; afterwards the file on disk is read back. A file that was valid must still be valid, whatever the fault."""
    import pathlib
    import resource
    import shutil
    import signal
    import tempfile

    from .. import hooks

    m = hooks.mods()
    main = m["main"]
    res = {"fault_cases": 0, "faults_hit": 0, "fault_outcomes": {}, "violations": [], "nontrivial": []}
    tmp = pathlib.Path(tempfile.mkdtemp(prefix="c03fault-"))
    real_format_code = main.format_code
    soft, hard = resource.getrlimit(resource.RLIMIT_FSIZE)
    old_handler = signal.signal(signal.SIGXFSZ, signal.SIG_IGN)
    try:
        for case in arg["cases"]:
            initial, returned, safe, limit = case["initial"], case["returned"], case["safe"], case["limit"]
            path = tmp / case.get("name", "mod.py")
            for leftover in tmp.iterdir():
                leftover.unlink()
            path.write_text(initial, encoding="utf-8")
            if case.get("mode") is not None:
                os.chmod(path, case["mode"])
            want = returned if returned is not None else real_format_code(initial, safe=safe, keep_imports=path.name == "__init__.py")
            if returned is not None:
                main.format_code = lambda source, **kw: returned
            k = {"zero": 0, "one": 1, "half": len(want.encode()) // 2, "all_but_one": max(len(want.encode()) - 1, 0), "third": len(want.encode()) // 3,
                 "none": None}[limit] if isinstance(limit, str) else limit
            exc = None
            try:
                if k is not None:
                    resource.setrlimit(resource.RLIMIT_FSIZE, (k, hard))
                try:
                    rv = main.format_file(path, safe=safe)
                except BaseException as e:  # an I/O error may propagate: the claim is about the file
                    rv, exc = None, f"{type(e).__name__}: {e}"
            finally:
                resource.setrlimit(resource.RLIMIT_FSIZE, (soft, hard))
                main.format_code = real_format_code
            after = path.read_bytes().decode("utf-8", "replace") if path.exists() else None
            mode_after = (path.stat().st_mode & 0o7777) if path.exists() else None
            others = sorted(x.name for x in tmp.iterdir() if x != path)
            res["fault_cases"] += 1
            res["faults_hit"] += exc is not None
            outcome = "missing" if after is None else "old" if after == initial else "new" if after == want else "empty" if after == "" else "other"
            res["fault_outcomes"][f"{'fault' if exc else 'clean'}:{outcome}"] = res["fault_outcomes"].get(f"{'fault' if exc else 'clean'}:{outcome}", 0) + 1
            res["nontrivial"].append(env.digest(repr((initial, returned, safe, k))))

            def viol(kind, extra=None):
                res["violations"].append({"kind": kind, "input": initial, "detail": dict({"returned_by_format_code": returned, "file_after": after, "return_value": rv, "safe": safe,
                                                                                         "size_limit_bytes": k, "exc": exc, "other_files_in_folder": others}, **(extra or {})),
                                          "replay": {"fn": "harness.checks.c03:w_fault", "arg": {"cases": [case]}}})

            if after is None:
                viol("file_lost_by_a_write_fault")
                continue
            if _valid(initial) and not _valid(after):
                viol("valid_file_replaced_by_invalid_one", {"fault": f"write refused after {k} bytes (EFBIG)"})
            if exc is None and want != initial and _valid(initial) and _valid(want) and after != want:
                viol("file_content_is_neither_old_nor_new", {"fault": f"size limit {k}, no exception"})
            if exc is None and case.get("mode") is not None:  # not part of the statement: evidence only
                res["mode_kept" if mode_after == case["mode"] else "mode_changed"] = res.get("mode_kept" if mode_after == case["mode"] else "mode_changed", 0) + 1
    finally:
        resource.setrlimit(resource.RLIMIT_FSIZE, (soft, hard))
        signal.signal(signal.SIGXFSZ, old_handler)
        main.format_code = real_format_code
        shutil.rmtree(tmp, ignore_errors=True)
    return res


def _valid(text):
    try:
        ast.parse(text)
        return True
    except (SyntaxError, ValueError):
        return False


# --------------------------------------------------------------------------------- parent side
def guard_cases():
    cases = []
    initials = {"valid": VALID, "invalid": INVALID, "skip_file": SKIP, "valid_no_newline": VALID.rstrip("\n"), "empty": ""}
    for iname, initial in initials.items():
        returns = {"same": initial, "valid_changed": VALID2, "invalid": INVALID2, "whitespace_changed": initial + "\n\n", "empty": "",
                   "invalid_same_prefix": initial + "(\n"}
        for rname, returned in returns.items():
            for safe in (False, True):
                for fname in ("mod.py", "__init__.py"):
                    cases.append({"initial": initial, "returned": returned, "safe": safe, "name": fname, "label": f"{iname}->{rname}"})
    return cases


LONG = "import os\n\n\ndef f(x):\n    values = [\n" + "".join(f"        (x + {i}, 'item {i}'),\n" for i in range(40)) + "    ]\n    return os.sep, values\n\n\nprint(len(f(1)[1]))\n"
LONG2 = LONG.replace("item", "entry")


def fault_cases(examples):
    cases = []
    for iname, initial, returned in (("short", VALID, VALID2), ("long", LONG, LONG2), ("short->long", VALID, LONG2), ("long->short", LONG, VALID2),
                                     ("no_newline", VALID.rstrip("\n"), VALID2), ("invalid->valid", INVALID, VALID2)):
        for limit in ("zero", "one", "third", "half", "all_but_one", "none"):
            for safe, fname in ((False, "mod.py"), (True, "__init__.py")):
                cases.append({"initial": initial, "returned": returned, "safe": safe, "name": fname, "limit": limit, "label": f"{iname}@{limit}", "mode": 0o640 if safe else 0o755})
    for i, (o, t) in enumerate(examples):
        cases.append({"initial": t, "returned": None, "safe": bool(i % 2), "name": "mod.py", "limit": ("third", "half", "all_but_one", "one")[i % 4], "label": f"real:{o}", "mode": None})
    return cases


def main() -> int:
    from .. import pool
    from ..gen import corpus, hostile
    from . import c04, c14

    v = verdict.Verdict(PROP, level="fault_enumeration")
    thorough = env.tier() == "thorough"
    r = env.rng(PROP, "main")
    cases = []
    from .. import pipeline as _pl

    for i, d in enumerate(hostile.DEGENERATE):  # the degenerate texts that are valid Python (a continuation onto a blank last line, form feeds, CR line ends ...)
        if d.strip() and _pl.valid(d):
            cases.append({"id": f"degenerate:{i}", "text": d, "options": c04.OPTION_VECTORS[i % 4]})
    names = sorted(hostile.CONSTRUCTS)
    for i, n in enumerate(names):
        for pos in (hostile.POSITIONS if thorough else dict.fromkeys(["alone", hostile.POSITIONS[i % len(hostile.POSITIONS)], "indented_fragment", "last_no_newline"])):
            cases.append({"id": f"zoo:{n}:{pos}", "text": hostile.place(hostile.CONSTRUCTS[n], pos), "options": c04.OPTION_VECTORS[(i + len(pos)) % len(c04.OPTION_VECTORS)]})
    ex = corpus.repo_examples()
    for o, t in (ex if thorough else r.sample(ex, 320)):
        cases.append({"id": f"example:{o}", "text": t, "options": r.choice(c04.OPTION_VECTORS)})
    for o, t in corpus.stdlib_files(20000 if thorough else 6000, limit=150 if thorough else 30):
        cases.append({"id": f"stdlib:{o}", "text": t, "options": r.choice(c04.OPTION_VECTORS[:2])})
    for k in range(400 if thorough else 60):
        a, b = r.sample(names, 2)
        cases.append({"id": f"zoo2:{a}+{b}", "text": hostile.CONSTRUCTS[a] + "\n\n" + hostile.CONSTRUCTS[b], "options": r.choice(c04.OPTION_VECTORS)})
    cases.sort(key=lambda c: -len(c["text"]))
    tasks = []
    cur = []
    for c in cases:
        cur.append(c)
        if len(cur) >= (1 if len(c["text"]) > 2500 else 4):
            tasks.append({"cases": cur})
            cur = []
    if cur:
        tasks.append({"cases": cur})
    real_files = [{"initial": t, "returned": None, "safe": bool(i % 2), "name": "mod.py" if i % 3 else "__init__.py", "label": "real"} for i, (o, t) in
                  enumerate(r.sample(ex, 120 if thorough else 40))]
    gcases = guard_cases() + real_files
    fcases = fault_cases([(o, t) for o, t in r.sample(ex, 160 if thorough else 40) if _valid(t)])
    tot, tot_g, tot_s, tot_d, tot_f = {}, {}, {}, {}, {}
    dcases = [{"id": o, "source": t, "n": 8} for o, t in r.sample(ex, 300 if thorough else 100) if _valid(t)]
    with pool.Pool() as p:
        reps = p.map("harness.checks.c03:w_direct", [{"cases": dcases[i:i + 10]} for i in range(0, len(dcases), 10)], cpu_s=600)
        verdict.pool_failures(v, reps, "C03 direct")
        for rep in reps:
            if rep.get("status") == "ok":
                _merge(tot_d, rep["value"])
        verdict.run_witnesses(v, p)
        reps = p.map("harness.checks.c03:w_valid", tasks, cpu_s=1200)
        verdict.pool_failures(v, reps, "C03 validity")
        for rep in reps:
            if rep.get("status") == "ok":
                _merge(tot, rep["value"])
        reps = p.map("harness.checks.c03:w_guard", [{"cases": gcases[i:i + 8]} for i in range(0, len(gcases), 8)], cpu_s=600)
        verdict.pool_failures(v, reps, "C03 guard")
        for rep in reps:
            if rep.get("status") == "ok":
                _merge(tot_g, rep["value"])
        reps = p.map("harness.checks.c03:w_fault", [{"cases": fcases[i:i + 8]} for i in range(0, len(fcases), 8)], cpu_s=600)
        verdict.pool_failures(v, reps, "C03 write faults")
        for rep in reps:
            if rep.get("status") == "ok":
                _merge(tot_f, rep["value"])
        items = [{"id": o, "text": t, "n": 3} for o, t in r.sample(ex, 300 if thorough else 80)]
        gen = p.map("harness.checks.c14:w_gen", [{"items": items[i:i + 8]} for i in range(0, len(items), 8)], cpu_s=600)
        scases = [dict(pattern=a, repl=b, source=s, count=c) for a, b, s, c in c14.HOSTILE]
        for g in gen:
            if g.get("status") == "ok":
                scases.extend(g["value"])
        reps = p.map("harness.checks.c03:w_sub", [{"cases": scases[i:i + 20]} for i in range(0, len(scases), 20)], cpu_s=600)
        verdict.pool_failures(v, reps, "C03 sub")
        for rep in reps:
            if rep.get("status") == "ok":
                _merge(tot_s, rep["value"])
    for t in (tot, tot_g, tot_s, tot_d, tot_f):
        v.extend(t.get("violations", []))
    if tot.get("steps_changed", 0) == 0:
        v.inconclusive_because("no rule changed any text: the validity post-condition was never exercised")
    if tot_g.get("guard_cases", 0) == 0:
        v.inconclusive_because("the write guard was never driven")
    if tot_f.get("faults_hit", 0) == 0:
        v.inconclusive_because("no injected write fault was ever hit: the crash-point monitor observed nothing")
    nontrivial = set(tot.get("nontrivial", [])) | set(tot_g.get("nontrivial", [])) | set(tot_s.get("nontrivial", [])) | set(tot_d.get("nontrivial", [])) | set(tot_f.get("nontrivial", []))
    cov = {
        "evaluations": tot.get("cases", 0) + tot_g.get("guard_cases", 0) + tot_s.get("sub_calls", 0) + tot_d.get("direct_calls", 0) + tot_f.get("fault_cases", 0),
        "distinct_nontrivial": len(nontrivial),
        "rule": "validity: a case = one valid input through format_code (every rule step inside is checked) and through each pipeline rule alone; "
                "non-trivial = a (rule, input) pair where the rule changed the text. Write guard: a case = one (file content, text returned by the "
                "formatter, safe, file name) combination; all are distinct and non-trivial. sub: non-trivial = the substitution changed the source.",
        "samples": tot.get("samples", [])[:3] or [{"note": "none"}],
        "validity": {k: tot.get(k) for k in ("cases", "steps_checked", "steps_changed", "isolated_calls", "isolated_changed", "crashed")},
        "rules_that_changed_text": len(tot.get("rules_changed", {})),
        "write_guard": {"combinations": len(guard_cases()), "real_files": len(real_files), "cases": tot_g.get("guard_cases"), "writes_seen": tot_g.get("writes_seen"),
                        "fault_enumeration_complete": True},
        "write_faults": {"cases": tot_f.get("fault_cases"), "faults_hit": tot_f.get("faults_hit"), "file_after_by_outcome": tot_f.get("fault_outcomes"),
                         "mode_kept": tot_f.get("mode_kept", 0), "mode_changed": tot_f.get("mode_changed", 0),
                         "fault": "RLIMIT_FSIZE lowered to 0 / 1 / a third / half / all but one byte of the new content while format_file runs (EFBIG past the limit)"},
        "sub": {k: tot_s.get(k) for k in ("sub_calls", "sub_changed")},
        "direct_edit_fault_injection": {k: tot_d.get(k) for k in ("direct_calls", "direct_invalid_candidates")},
    }
    return v.finish(cov, assumptions=["validity = ast.parse of CPython 3.12; indented fragments are judged after textwrap.dedent"])


def _merge(total, part):
    for k, val in part.items():
        if isinstance(val, bool):
            continue
        if isinstance(val, int):
            total[k] = total.get(k, 0) + val
        elif isinstance(val, list):
            total.setdefault(k, []).extend(val)
        elif isinstance(val, dict):
            d = total.setdefault(k, {})
            for kk, vv in val.items():
                d[kk] = d.get(kk, 0) + vv


def replay(rec) -> int:
    return verdict.generic_replay(PROP, rec)
