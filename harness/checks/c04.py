"""C04 - the formatter is total: it never raises and always terminates.

Oracle: exception capture at the API boundary in isolated workers, a CPU-time budget per input, and for
syntactically invalid input the returned text must keep the non-whitespace character sequence.
Workload: construct zoo x positions x options, adversarial constant expressions in every condition position,
degenerate strings, character-level mutants, repository examples, standard-library files.
"""
from __future__ import annotations

import os

from .. import env, verdict

PROP = "C04"
OPTION_VECTORS = [{}, {"safe": True}, {"keep_imports": True}, {"safe": True, "keep_imports": True}, {"preserve": ["tail", "A", "f", "main"]},
                  {"max_line_length": 60}, {"safe": True, "max_line_length": 200}]


def budget(text: str) -> float:
    return max(20.0, 400.0 * len(text) / 1024.0)


# --------------------------------------------------------------------------------- worker side
_MEMORY_ERRORS = []


def _watch_memory_errors():
    """H-raise: note every MemoryError raised while the formatter runs, whoever catches it. The worker's address space is capped (RLIMIT_AS, 4 GiB): an
    allocation beyond that fails at once here, where on a user's machine it would take minutes and gigabytes (or the OOM killer)."""
    import sys

    mon = getattr(sys, "monitoring", None)
    if mon is None or getattr(_watch_memory_errors, "done", False):
        return
    _watch_memory_errors.done = True

    def on_raise(code, offset, exc):
        if isinstance(exc, MemoryError) and len(_MEMORY_ERRORS) < 5:
            _MEMORY_ERRORS.append(f"{code.co_filename.rsplit('/', 1)[-1]}:{code.co_qualname}")

    try:
        mon.use_tool_id(4, "verif-c04")
        mon.register_callback(4, mon.events.RAISE, on_raise)
        mon.set_events(4, mon.events.RAISE)
    except ValueError:
        pass


def w_total(arg):
    from .. import pipeline

    _watch_memory_errors()
    out = []
    if any(c.get("kind") == "hostile_world" for c in arg["cases"]) and not os.path.exists("broken_syntax_mod.py"):
        # a replay outside the check's own worker pool: build the modules in a directory of their own and go there
        import tempfile

        world = tempfile.mkdtemp(prefix="c04world-")
        for rel, content in HOSTILE_MODULES.items():
            os.makedirs(os.path.dirname(os.path.join(world, rel)), exist_ok=True)
            with open(os.path.join(world, rel), "wb") as stream:
                stream.write(content)
        os.chdir(world)
    for case in arg["cases"]:
        text = case["text"]
        del _MEMORY_ERRORS[:]
        obs = pipeline.observe_format(text, case.get("options"), want=("rule",))
        rec = {"id": case["id"], "cpu": round(obs["cpu"], 3), "crash": obs["crash"], "effects": obs["effects"], "in_valid": pipeline.valid_fragment(text)}
        if _MEMORY_ERRORS:
            rec["memory_errors"] = list(_MEMORY_ERRORS)
        res = obs["out"]
        if obs["crash"] is None:
            rec["is_str"] = isinstance(res, str)
            if isinstance(res, str):
                rec["changed"] = res != text
                if not rec["in_valid"]:
                    rec["nonws_same"] = pipeline.squash(res) == pipeline.squash(text)
                    if not rec["nonws_same"]:
                        rec["out"] = res[:2000]
        rec["max_depth"] = max((s["depth"] for s in obs["steps"]), default=0)
        rec["steps"] = len(obs["steps"])
        out.append(rec)
    return out


# --------------------------------------------------------------------------------- parent side
def build_cases(thorough):
    from ..gen import corpus, hostile

    r = env.rng(PROP, "cases")
    cases = []

    def add(cid, text, options=None, kind="zoo"):
        cases.append({"id": cid, "text": text, "options": options or {}, "kind": kind})

    names = sorted(hostile.CONSTRUCTS)
    for i, name in enumerate(names):
        snippet = hostile.CONSTRUCTS[name]
        positions = hostile.POSITIONS if thorough else [hostile.POSITIONS[(i + k) % len(hostile.POSITIONS)] for k in range(4)]
        for pos in positions:
            opts = OPTION_VECTORS if (thorough and pos in ("alone", "last")) else [OPTION_VECTORS[(i + len(pos)) % len(OPTION_VECTORS)]]
            for o in opts:
                add(f"zoo:{name}:{pos}:{sorted(o)}", hostile.place(snippet, pos), o)
    # pairs of constructs in one file (interactions)
    for k in range(200 if thorough else 40):
        a, b = r.sample(names, 2)
        add(f"zoo2:{a}+{b}", hostile.CONSTRUCTS[a] + "\n\n" + hostile.CONSTRUCTS[b], r.choice(OPTION_VECTORS))
    for i, e in enumerate(hostile.ADVERSARIAL_CONSTANTS):
        tmpls = hostile.CONDITION_TEMPLATES if thorough else [hostile.CONDITION_TEMPLATES[(i + k) % len(hostile.CONDITION_TEMPLATES)] for k in range(5)]
        for t in tmpls:
            add(f"const:{e}:{hostile.CONDITION_TEMPLATES.index(t)}", t.replace("{E}", e), r.choice(OPTION_VECTORS[:4]), kind="const")
    # the constants that cost most (the first eight: huge powers, shifts, repetitions) in every template, also in the quick tier: which rule meets
    # which constant decides (the closed forms of sums over ranges hand their bounds to sympy)
    if not thorough:
        have = {c["text"] for c in cases}
        for e in hostile.ADVERSARIAL_CONSTANTS[:8]:
            for t in hostile.CONDITION_TEMPLATES:
                if t.replace("{E}", e) not in have:
                    add(f"const:{e}:{hostile.CONDITION_TEMPLATES.index(t)}:all", t.replace("{E}", e), {}, kind="const")
    for i, d in enumerate(hostile.DEGENERATE):
        for o in (OPTION_VECTORS[:4] if thorough else [OPTION_VECTORS[i % 4]]):
            add(f"degenerate:{i}:{sorted(o)}", d, o, kind="degenerate")
    bases = [hostile.place(hostile.CONSTRUCTS[n], "first") for n in names]
    for k in range(6000 if thorough else 700):
        rr = env.rng(PROP, "mut", k)
        add(f"mutant:{k}", hostile.mutate(rr.choice(bases), rr, rr.choice([1, 1, 2, 3, 5])), rr.choice(OPTION_VECTORS[:4]), kind="mutant")
    ex = corpus.repo_examples()
    for o, t in (ex if thorough else r.sample(ex, 250)):
        add(f"example:{o}", t, r.choice(OPTION_VECTORS), kind="example")
    # opt-out comments on lines that a rule wants to rewrite, move or delete: refusing the edit must not make the rule loop or crash
    import textwrap

    from . import c09, c20

    annotated = [(f"antagonist{i}", t) for i, t in enumerate(c09.ANTAGONISTS)] + [(f"renamer{i}", t) for i, t in enumerate(c20.RENAMERS)]
    annotated += [(o, textwrap.dedent(t)) for o, t in (ex if thorough else r.sample(ex, 120)) if len(t) < 1500]
    for sid, text in annotated:
        idx = c20.annotatable_lines(text)
        rr = env.rng(PROP, "ignore", sid)
        for i in (idx if thorough and len(idx) < 12 else rr.sample(idx, min(len(idx), 3))):
            lines = text.split("\n")
            lines[i] += c20.IGNORE
            add(f"ignore:{sid}:{i}", "\n".join(lines), rr.choice(OPTION_VECTORS[:3]), kind="example")
    for o, t in corpus.stdlib_files(30000 if thorough else 9000, limit=250 if thorough else 45):
        add(f"stdlib:{o}", t, r.choice(OPTION_VECTORS[:2]), kind="stdlib")
    if thorough:
        for o, t in corpus.pyrefact_sources():
            if len(t) < 60000:
                add(f"self:{o}", t, {}, kind="stdlib")
    return cases


def run_cases(p, cases, v, fn="harness.checks.c04:w_total", group_cpu=120.0):
    """Batches grouped by CPU budget; a batch that kills/hangs its worker is re-run case by case."""
    batches, cur = [], []
    for c in sorted(cases, key=lambda c: -len(c["text"])):  # longest first: the tail of the schedule is made of cheap cases
        limit = 1 if len(c["text"]) > 3000 else 4 if len(c["text"]) > 800 else 12
        if cur and len(cur) >= limit:
            batches.append(cur)
            cur = []
        cur.append(c)
    if cur:
        batches.append(cur)
    results = {}
    reps = p.map(fn, [{"cases": b} for b in batches], cpu_s=group_cpu * 4 + 60)
    retry = []
    for b, rep in zip(batches, reps):
        if rep.get("status") == "ok":
            for rec in rep["value"]:
                results[rec["id"]] = rec
        else:
            v.count("batch_" + str(rep.get("status")))
            retry.extend(b)
    if retry:
        reps = p.map(fn, [{"cases": [c]} for c in retry], cpu_s=max(budget(c["text"]) for c in retry) + 5)
        for c, rep in zip(retry, reps):
            if rep.get("status") == "ok":
                results[rep["value"][0]["id"]] = rep["value"][0]
            else:
                results[c["id"]] = {"id": c["id"], "worker_status": rep.get("status"), "crash": None}
    return results


# modules that sit beside the text being formatted (the workers' current directory) and that the import rules will look into
HOSTILE_MODULES = {
    "broken_syntax_mod.py": b"def broken(:\n",
    "latin1_mod.py": b'# -*- coding: latin-1 -*-\nname = "\xe9"\n',
    "nul_mod.py": b"value = 1\x00\n",
    "empty_mod.py": b"",
    "bom_mod.py": b"\xef\xbb\xbfvalue = 1\n",
    "weird_all_mod.py": b"__all__ = 5\nvalue = 1\n",
    "dynamic_all_mod.py": b"__all__ = [n for n in dir() if n[0] != '_']\nvalue = 1\n__all__ += ['other']\nother = 2\n",
    "raising_mod.py": b"value = 1\nraise RuntimeError('do not import me')\n",
    "selfstar_mod.py": b"from selfstar_mod import *\nvalue = 1\n",
    "cycle_a_mod.py": b"from cycle_b_mod import *\nother = 2\n",
    "cycle_b_mod.py": b"from cycle_a_mod import *\nvalue = 3\n",
    "deep_pkg/__init__.py": b"from .sub import *\nfrom deep_pkg.sub2 import *\n",
    "deep_pkg/sub.py": b"def broken(:\n",
    "deep_pkg/sub2.py": b"value = 4\n",
    "tabs_mod.py": b"if True:\n\tvalue = 1\n        other = 2\n",
    "huge_line_mod.py": b"value = [" + b"1, " * 20000 + b"]\n",
}


def hostile_world_cases():
    cases = []
    mods = sorted({m.split("/")[0].replace(".py", "") for m in HOSTILE_MODULES})
    for i, mod in enumerate(mods):
        for j, text in enumerate((f"from {mod} import *\nprint(value)\n", f"from {mod} import *\nfrom os.path import *\nprint(value, join, other)\n", f"from {mod} import value\nprint(value)\n",
                                  f"import {mod}\nprint({mod}.value)\n", f"def use():\n    from {mod} import *\n    return value\n", f"from {mod} import value as v, other\nprint(v)\n")):
            cases.append({"id": f"world:{mod}:{j}", "text": text, "options": OPTION_VECTORS[(i + j) % len(OPTION_VECTORS)], "kind": "hostile_world"})
    return cases


def main() -> int:
    from .. import pool

    v = verdict.Verdict(PROP)
    thorough = env.tier() == "thorough"
    cases = build_cases(thorough) + hostile_world_cases()
    scratch = env.scratch()
    for rel, content in HOSTILE_MODULES.items():
        path = scratch / "c04cwd" / rel
        path.parent.mkdir(parents=True, exist_ok=True)
        path.write_bytes(content)
    with pool.Pool(extra_env={"VERIF_WORKER_CWD": str(scratch / "c04cwd"), "VERIF_RECURSION": "1000"}) as p:
        verdict.run_witnesses(v, p)
        results = run_cases(p, cases, v)
    kinds, crashes, nontrivial, samples = {}, {}, set(), []
    max_depth = 0
    for c in cases:
        rec = results.get(c["id"])
        kinds[c["kind"]] = kinds.get(c["kind"], 0) + 1
        if rec is None:
            v.inconclusive_because("a case produced no result")
            continue
        if rec.get("worker_status") in ("watchdog", "exc", "harness_error"):
            v.count("watchdog_or_harness_" + str(rec["worker_status"]))
            continue
        for viol in judge(c, rec):
            v.add(viol)
        if rec.get("crash"):
            cr = rec["crash"]
            key = f"{cr.get('exc')}@{cr.get('inner')}<{cr.get('rule')}"
            crashes[key] = crashes.get(key, 0) + 1
            continue
        if rec.get("worker_status"):
            continue
        max_depth = max(max_depth, rec.get("max_depth", 0))
        if not rec.get("in_valid"):
            v.count("invalid_inputs")
        if rec.get("changed") or not rec.get("in_valid"):
            nontrivial.add(env.digest(c["text"] + repr(sorted(c["options"].items()))))
        if len(samples) < 4 and rec.get("changed") and c["kind"] in ("zoo", "const") and len(c["text"]) < 400:
            samples.append({"case": c["id"], "input": c["text"], "cpu_s": rec["cpu"], "rule_calls": rec["steps"]})
    cov = {
        "evaluations": len(results),
        "distinct_nontrivial": len(nontrivial),
        "rule": "a case = one format_code(text, **options) call in an isolated worker; non-trivial = the formatter changed the text, or the input is "
                "invalid Python (early-return and hand-back paths); distinct by digest of (text, options)",
        "samples": samples or [{"note": "none"}],
        "cases_by_kind": kinds,
        "crash_sites": crashes,
        "max_rule_nesting_depth": max_depth,
        "constructs": len(__import__("harness.gen.hostile", fromlist=["CONSTRUCTS"]).CONSTRUCTS),
    }
    return v.finish(cov, assumptions=["bounded time = CPU budget max(20 s, 400 s per kB) of the worker process, two orders of magnitude above the measured cost",
                                      "inputs up to 30 kB (60 kB thorough)"])


def judge(c, rec):
    """Violations of C04 in one observed case."""
    out = []
    replay = {"fn": "harness.checks.c04:w_judged", "arg": {"cases": [c]}}
    if rec.get("worker_status"):
        kind = {"cpu_budget": "exceeded_cpu_budget", "crash": "worker_process_died"}.get(rec["worker_status"])
        if kind:
            out.append({"kind": kind, "input": c["text"], "detail": {"options": c["options"], "budget_s": budget(c["text"])}, "replay": replay})
        return out
    if rec.get("crash"):
        cr = rec["crash"]
        out.append({"kind": "format_code_raised", "rule": cr.get("rule"), "input": c["text"], "detail": dict(cr, options=c["options"], case=c["id"]), "replay": replay})
        return out
    if rec.get("memory_errors"):
        out.append({"kind": "allocation_beyond_the_address_space_cap", "input": c["text"], "detail": {"raised_in": rec["memory_errors"], "options": c["options"], "cap": "RLIMIT_AS 4 GiB"}, "replay": replay})
    if rec.get("effects"):
        out.append({"kind": "effect_while_formatting", "input": c["text"], "detail": {"effects": rec["effects"], "options": c["options"]}, "replay": replay})
    if not rec.get("is_str"):
        out.append({"kind": "result_is_not_a_string", "input": c["text"], "detail": {"options": c["options"]}, "replay": replay})
        return out
    if rec["cpu"] > budget(c["text"]):
        out.append({"kind": "exceeded_cpu_budget", "input": c["text"], "detail": {"cpu_s": rec["cpu"], "budget_s": budget(c["text"]), "options": c["options"]}, "replay": replay})
    if not rec["in_valid"] and rec.get("nonws_same") is False:
        out.append({"kind": "invalid_input_not_handed_back", "input": c["text"], "detail": {"out": rec.get("out"), "options": c["options"]}, "replay": replay})
    return out


def w_judged(arg):
    """Replayable form: observe and judge in one call."""
    recs = w_total(arg)
    return {"violations": [x for c, rec in zip(arg["cases"], recs) for x in judge(c, rec)]}


def replay(rec) -> int:
    return verdict.generic_replay(PROP, rec)
