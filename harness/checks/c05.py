"""C05 - formatting is a pure function of its input (history independence, faithful caches).

Monitors: (a) byte comparison of a request's result after an arbitrary call history with the result of the same request
in a fresh interpreter (computed by one-shot workers); every rule called twice in a row on the same input;
(b) invariant at the hook H-cache, evaluated on every return (hit or miss) of core.parse / core.compile_template: the
object handed out must still be faithful to the text it was built from.
"""
from __future__ import annotations

import ast

from .. import env, verdict

PROP = "C05"
FIXED_TEXTS = [
    # rules whose replacement is built from small compiled templates (min, max, list, reversed, heapq.nsmallest ...), then the same names as search patterns
    "import sys\nxs = [3, 1, 2] + [len(sys.argv)]\nprint(sorted(xs)[0], sorted(xs)[-1], sorted(xs)[:2], sorted(xs)[-2:], list(reversed(sorted(xs))), min(xs), max(xs))\n",
    # a module with global / nonlocal declarations, then unrelated modules that happen to use the same names for unused variables
    "_cache = None\n\n\ndef load():\n    global _cache, counter\n    _cache = 1\n    counter = 2\n    return _cache\n\n\ndef outer():\n    state = 0\n    def inner():\n        nonlocal state\n        state += 1\n    inner()\n    return state\n\n\nprint(load(), outer())\n",
    "def build_index():\n    print('built')\n    return {}\n\n\ndef run():\n    _cache = build_index()\n    counter = build_index()\n    state = build_index()\n    return 2\n\n\nprint(run())\n",
    # several *numbered* generated constants (values that do not make a name of their own)
    "def ga():\n    return (11, 22, 33, 44, 55, 66, 77), [100, 200, 300, 400, 500, 600], {1.5: 2.5, 3.5: 4.5, 5.5: 6.5}\n\n\ndef gb():\n    return (11, 22, 33, 44, 55, 66, 77), [100, 200, 300, 400, 500, 600], {1.5: 2.5, 3.5: 4.5, 5.5: 6.5}\n\n\n"
    "def gc():\n    return (11, 22, 33, 44, 55, 66, 77), [100, 200, 300, 400, 500, 600], {1.5: 2.5, 3.5: 4.5, 5.5: 6.5}\n\n\ndef gd():\n    return (11, 22, 33, 44, 55, 66, 77), [100, 200, 300, 400, 500, 600], {1.5: 2.5, 3.5: 4.5, 5.5: 6.5}\n\n\n"
    "def ge():\n    return (11, 22, 33, 44, 55, 66, 77), [100, 200, 300, 400, 500, 600], {1.5: 2.5, 3.5: 4.5, 5.5: 6.5}\n\n\nprint(ga(), gb(), gc(), gd(), ge())\n",
    # two and more named generated constants
    "def fa():\n    return 'a long shared text, repeated often' + 'a' + 'another text that is shared by many'\n\n\ndef fb():\n    return 'a long shared text, repeated often' + 'b' + 'another text that is shared by many'\n\n\n"
    "def fc():\n    return 'a long shared text, repeated often' + 'c' + 'another text that is shared by many'\n\n\ndef fd():\n    return 'a long shared text, repeated often' + 'd' + 'another text that is shared by many'\n\n\n"
    "def fe():\n    return 'a long shared text, repeated often' + 'e' + 'another text that is shared by many' + 'a third one, also in every function'\n\n\ndef ff():\n    return 'a third one, also in every function' * 2\n\n\n"
    "def fg():\n    return ['a third one, also in every function', 'a third one, also in every function', 'a third one, also in every function']\n\n\nprint(fa(), fb(), fc(), fd(), fe(), ff(), fg())\n",
    "x = reversed(sorted([3, 1, 2]))\nprint(list(x))\ny = reversed(sorted([3, 1, 2], reverse=True))\nprint(list(y))\n",
    "class K:\n    def a(self):\n        return 1\n\n    def b(self, v):\n        return self.c(v)\n\n    @classmethod\n    def c(cls, v):\n        return v\n\n    def d(self, v):\n        return K.c(v)\n\n\nprint(K().a(), K().b(2))\n",
    "a = [x for x in (y for y in range(3))]\nb = {k for k in {j for j in range(4)}}\nprint(a, b)\n",
    "out = []\nfor i in range(3):\n    k = 10\n    v = k + i\n    out.append(v)\nprint(out)\n",
    "class P:\n    pass\n\n\nP.x = 1\nP.y = 2\nprint(P.x)\n",
    "import os\nimport os\nfrom a import b\nfrom a import c\nprint(os, b, c)\n",
    "def f(x):\n    if x:\n        y = 1\n    else:\n        y = 2\n    return y\n\n\nprint(f(1))\n",
    "values = []\nfor i in range(5):\n    if i % 2:\n        values.append(i * 2)\nprint(values)\n",
    "d = {}\nd['a'] = 1\nd['b'] = 2\nfor k in d.keys():\n    print(k, d[k])\n",
    "def g():\n    a = sorted(list(range(3)))\n    b = list(list(a))\n    return set(list(b))\n\n\nprint(g())\n",
]
PATTERNS = [("min", "lowest"), ("max({{x}})", "hi({{x}})"), ("list", "tuple"), ("heapq.nsmallest", "smallest"), ("reversed({{x}})", "rev({{x}})"), ("{{f}}({{x}})", "{{f}}({{x}}, 1)"), ("{{a}} = {{b}}", "{{a}} = ({{b}})"), ("print({{...*}})", "log()"), ("return {{x}}", "return ({{x}})"),
            ("[{{x}} for {{x}} in {{it}}]", "list({{it}})"), ("{{x}}.append({{y}})", "{{x}}.add({{y}})"), ("for {{i}} in {{it}}:\n    {{...+}}", "pass")]


# --------------------------------------------------------------------------------- worker side
def do_call(m, call):
    """Execute one call of a history / a request; returns a JSON-able result (exceptions are results too)."""
    from .. import hooks

    kind = call["kind"]
    try:
        if kind == "format":
            opts = dict(call.get("options") or {})
            if "preserve" in opts:
                opts["preserve"] = frozenset(opts["preserve"])
            return {"out": m["main"].format_code(call["text"], **opts)}
        if kind == "rule":
            fn = hooks.rule_functions()[tuple(call["rule"])]
            return {"out": hooks.call_rule(fn, call["text"], frozenset(call.get("preserve") or ()))}
        if kind == "sub":
            return {"out": m["pattern_matching"].sub(call["pattern"], call["repl"], call["text"])}
        if kind == "findall":
            return {"out": m["pattern_matching"].findall(call["pattern"], call["text"])}
    except Exception as exc:
        return {"exc": type(exc).__name__}
    raise ValueError(kind)


def w_fresh(arg):
    """Reference: the request alone, in a fresh interpreter (the pool is one-shot)."""
    from .. import hooks

    m = hooks.mods()
    return [do_call(m, c) for c in arg["requests"]]


def w_history(arg):
    from .. import hooks

    m = hooks.mods()
    hooks.install_cache_hooks()
    hooks.install_rule_hooks()
    R = hooks.REC
    res = {"histories": 0, "calls": 0, "cache_checks": 0, "violations": [], "results": [], "nontrivial": []}
    for h in arg["histories"]:
        R.reset()
        corrupt_seen = 0
        for i, call in enumerate(h["history"]):
            do_call(m, call)
            res["calls"] += 1
            for src in R.cache_audit():
                if len(res["violations"]) < 40:
                    res["violations"].append({"kind": "call_left_cached_tree_corrupted", "rule": "/".join(call.get("rule", [])) or call["kind"], "input": src,
                                              "detail": {"cache": "core.parse", "call": _brief(call), "call_index": i},
                                              "replay": {"fn": "harness.checks.c05:w_history", "arg": {"histories": [h]}}})
            if len(R.cache) > corrupt_seen:
                for ev in R.cache[corrupt_seen:]:
                    if len(res["violations"]) < 40:
                        res["violations"].append({"kind": "cache_not_faithful_to_its_source", "rule": (ev["stack"] or [None])[-1], "input": ev["source"],
                                                  "detail": {"cache": ev["fn"], "handed_out_while_running": ev["stack"][-2:], "after_call": _brief(call), "call_index": i},
                                                  "replay": {"fn": "harness.checks.c05:w_history", "arg": {"histories": [h]}}})
                corrupt_seen = len(R.cache)
        got = do_call(m, h["request"])
        res["calls"] += 1
        for ev in R.cache[corrupt_seen:]:
            if len(res["violations"]) < 40:
                res["violations"].append({"kind": "cache_not_faithful_to_its_source", "rule": (ev["stack"] or [None])[-1], "input": ev["source"],
                                          "detail": {"cache": ev["fn"], "handed_out_while_running": ev["stack"][-2:], "after_call": _brief(h["request"])},
                                          "replay": {"fn": "harness.checks.c05:w_history", "arg": {"histories": [h]}}})
        res["histories"] += 1
        res["cache_checks"] += R.cache_checks
        res["results"].append({"id": h["id"], "got": got})
    return res


def w_twice(arg):
    """Every pipeline rule twice in a row on the same input: r(x) == r(x)."""
    from .. import hooks

    m = hooks.mods()
    hooks.install_cache_hooks()
    R = hooks.REC
    rules = hooks.pipeline_rules()
    rf = hooks.rule_functions()
    res = {"pairs": 0, "fired": 0, "cache_checks": 0, "violations": [], "nontrivial": [], "first_results": [], "rules_fired": {}}
    import os
    import sys
    import tempfile

    junk = []
    home = os.getcwd()
    for case in arg["cases"]:
        text = case["text"]
        try:
            ast.parse(text)
        except (SyntaxError, ValueError):
            continue
        world = None
        if case.get("world"):  # sibling modules that the imports of the text resolve to
            world = tempfile.mkdtemp(prefix="c05-world-")
            for name, content in case["world"].items():
                with open(os.path.join(world, name), "w") as f:
                    f.write(content)
            os.chdir(world)
            sys.path.insert(0, world)
        for key in (rules if not case.get("only_rules") else [k for k in rules if f"{k[0]}.{k[1]}" in case["only_rules"]]):
            fn = rf[key]
            qual = f"{key[0]}.{key[1]}"
            R.reset()
            replay = {"fn": "harness.checks.c05:w_twice", "arg": {"cases": [case]}}
            a = do_call(m, {"kind": "rule", "rule": list(key), "text": text})
            for src in R.cache_audit():
                res["violations"].append({"kind": "call_left_cached_tree_corrupted", "rule": qual, "input": src, "detail": {"cache": "core.parse", "call": "first"}, "replay": replay})
            a2 = do_call(m, {"kind": "rule", "rule": list(key), "text": text})  # cold cache again after a corruption: must equal the first
            b = do_call(m, {"kind": "rule", "rule": list(key), "text": text})
            for src in R.cache_audit():
                res["violations"].append({"kind": "call_left_cached_tree_corrupted", "rule": qual, "input": src, "detail": {"cache": "core.parse", "call": "repeat"}, "replay": replay})
            if a2 != a:
                b = a2
            res["pairs"] += 1
            res["cache_checks"] += R.cache_checks
            if a.get("out") is not None and a["out"] != text:
                res["fired"] += 1
                res["rules_fired"][qual] = res["rules_fired"].get(qual, 0) + 1
                res["nontrivial"].append(env.digest(qual + text))
                if case.get("sample_for_fresh"):
                    res["first_results"].append({"request": {"kind": "rule", "rule": list(key), "text": text}, "got": a})
            if a != b:
                res["violations"].append({"kind": "second_call_differs_from_first", "rule": qual, "input": text,
                                          "detail": {"first": _short(a), "second": _short(b)}, "replay": replay})
            elif a.get("out") is not None and a["out"] != text:
                # ... and again once the parsed program has been evicted from the cache and the heap has moved (sets of syntax nodes iterate in another order)
                for k in range(case.get("again", 1)):
                    junk.append([object() for _ in range(991 * (k + 1))])
                    m["core"].parse.cache_clear()
                    c = do_call(m, {"kind": "rule", "rule": list(key), "text": text})
                    res["pairs"] += 1
                    if c != a:
                        res["violations"].append({"kind": "call_after_cache_eviction_differs", "rule": qual, "input": text,
                                                  "detail": {"first": _short(a), "later": _short(c), "after_evictions": k + 1}, "replay": replay})
                        break
            for ev in R.cache:
                if len(res["violations"]) < 60:
                    res["violations"].append({"kind": "cache_not_faithful_to_its_source", "rule": qual, "input": ev["source"],
                                              "detail": {"cache": ev["fn"], "handed_out_while_running": ev["stack"][-2:]}, "replay": replay})
        if world:
            import shutil

            os.chdir(home)
            sys.path.remove(world)
            shutil.rmtree(world, ignore_errors=True)
            for fn_ in (getattr(m.get("tracing"), "trace_origin", None), getattr(m.get("tracing"), "_trace_module_source_file", None)):
                if hasattr(fn_, "cache_clear"):
                    fn_.cache_clear()
    return res


def _short(r):
    return {k: (v[-500:] if isinstance(v, str) else v) for k, v in r.items()}


def _brief(call):
    return {k: (v[:80] if isinstance(v, str) else v) for k, v in call.items()}


WORLD_TIES = [
    ("from c import x as bbb, x as aaa, x as ccc, x as ddd\nprint(aaa, bbb, ccc, ddd)\n", {"c.py": "from d import x\n", "d.py": "x = 1\n"}),
    ("from c import y as q, x as p, y as a, x as b\nprint(a, b, p, q)\n", {"c.py": "from d import x, y\n", "d.py": "x = 1\ny = 2\n"}),
    ("from c import *\nfrom e import *\nprint(x, y, z, w)\n", {"c.py": "x = 1\ny = 2\n", "e.py": "z = 3\nw = 4\n"}),
]


# --------------------------------------------------------------------------------- parent side
def make_histories(n, texts, rules, stream):
    out = []
    for i in range(n):
        r = env.rng(PROP, stream, i)
        q_text = r.choice(texts)

        def call(text=None):
            t = text if text is not None else r.choice(texts)
            k = r.random()
            if k < 0.45:
                return {"kind": "format", "text": t, "options": r.choice([{}, {"safe": True}, {"keep_imports": True}, {"max_line_length": 60}, {"preserve": ["f", "x"]}])}
            if k < 0.8:
                return {"kind": "rule", "rule": list(r.choice(rules)), "text": t}
            p, rp = r.choice(PATTERNS)
            return {"kind": r.choice(["sub", "findall"]), "pattern": p, "repl": rp, "text": t}

        history = []
        for _ in range(r.randint(3, 14)):
            same = r.random() < 0.35
            history.append(call(q_text if same else None))
        request = call(q_text)
        out.append({"id": f"{stream}{i}", "history": history, "request": request})
    return out


# pairs of modules in which an unchanged piece of text means something else because of what stands around it: a verdict remembered from the
# first module (a function judged free of effects, a name judged safe to call) is wrong for the second one
SIBLING_PAIRS = [
    ("def emit(x):\n    return x\n\n\ndef relay(x):\n    return emit(x)\n\n\nrelay(1)\nprint(relay(2))\n",
     "def emit(x):\n    print('emit', x)\n    return x\n\n\ndef relay(x):\n    return emit(x)\n\n\nrelay(1)\nprint(relay(2))\n"),
    ("def notify(x):\n    return x\n\n\nnotify(1)\nprint(2)\n", "from somewhere import notify\n\nnotify(1)\nprint(2)\n"),
    ("class Registry:\n    pass\n\n\nRegistry()\nprint(1)\n", "from plugins import Registry\n\nRegistry()\nprint(1)\n"),
    ("def helper():\n    return 1\n\n\ndef main():\n    helper()\n    return 2\n\n\nprint(main())\n",
     "def main():\n    helper()\n    return 2\n\n\nfrom effects import helper\nprint(main())\n"),
    ("import os\n\n\ndef f(x):\n    return os.sep + x\n\n\nprint(f('a'))\n", "os = None\n\n\ndef f(x):\n    return os.sep + x\n\n\nprint(f)\n"),
    ("x = 1\nif x == 1:\n    print('one')\n", "x = 1.0\nif x == 1:\n    print('one')\n"),
    ("print(str(1), hex(1), repr(1), [1] * 1)\nif str(1) == '1':\n    print('a')\n", "print(str(True), repr(1.0), [True] * True)\nif str(True) == '1':\n    print('a')\nif str(1.0) == '1':\n    print('b')\n"),
]


def sibling(text, r):
    """(text, variant): the same module with one function made effectful, made trivial or removed, everything else verbatim. Whatever the tool
    remembers about the unchanged definitions (a memo keyed on part of the program, a set that grows) is wrong for one of the two."""
    import copy

    try:
        tree = ast.parse(text)
    except (SyntaxError, ValueError):
        return None
    defs = [n for n in ast.walk(tree) if isinstance(n, (ast.FunctionDef, ast.ClassDef))]
    if len(defs) < 2 and not any(isinstance(n, ast.Call) for n in ast.walk(tree)):
        return None
    if not defs:
        return None
    target = r.choice(defs)
    variant = copy.deepcopy(tree)
    twin = next(n for n in ast.walk(variant) if isinstance(n, type(target)) and n.name == target.name and n.lineno == target.lineno)
    how = r.choice(["effect", "trivial", "removed"]) if isinstance(target, ast.FunctionDef) else r.choice(["effect", "removed"])
    if how == "effect":
        twin.body.insert(0, ast.parse("print('sibling effect')").body[0])
    elif how == "trivial":
        twin.body[:] = ast.parse("return None").body
    else:
        for parent in ast.walk(variant):
            for field in ("body", "orelse", "finalbody"):
                block = getattr(parent, field, None)
                if isinstance(block, list) and twin in block:
                    block.remove(twin)
                    if not block:
                        block.append(ast.Pass())
    try:
        a, b = ast.unparse(tree) + "\n", ast.unparse(ast.fix_missing_locations(variant)) + "\n"
        ast.parse(b)
    except Exception:
        return None
    return (a, b, how) if a != b else None


def main() -> int:
    from .. import hooks, pool
    from ..gen import corpus, hostile

    v = verdict.Verdict(PROP)
    thorough = env.tier() == "thorough"
    r = env.rng(PROP, "main")
    ex = [t for o, t in corpus.repo_examples() if len(t) < 1500]
    import textwrap

    from ..gen import programs
    from . import c06, c09, c20

    # idiom programs (one per family) and the hand-written antagonists of C09 / C20: rules that pass nodes of the parsed source on to templates, renamers, movers
    idiom_texts = [programs.program((env.seed(), "C05", name, k), n_idioms=1, only=name)[0] for name in programs.IDIOMS for k in range(3 if thorough else 1)]
    texts = ([textwrap.dedent(t) for t in r.sample(ex, 400 if thorough else 160)] + [hostile.CONSTRUCTS[k] for k in sorted(hostile.CONSTRUCTS)][:20] + FIXED_TEXTS
             + list(c09.ANTAGONISTS) + list(c20.RENAMERS) + idiom_texts)
    # the rule list comes from the working tree: ask a worker
    with pool.Pool(n=1) as p0:
        rep = p0.map("harness.checks.c05:w_rules", [None])[0]
    if rep.get("status") != "ok":
        v.inconclusive_because("could not list the pipeline rules of the working tree")
        return v.finish({})
    rules = rep["value"]
    hist = make_histories(900 if thorough else 160, texts, rules, "h")
    # deterministic interference pairs: each of the first fixed texts is formatted (three ways), then each other one is requested, and searched with every pattern
    k = 0
    for a in FIXED_TEXTS[:4]:
        for b in FIXED_TEXTS[:4]:
            for req_opts in ({}, {"safe": True}):
                k += 1
                hist.append({"id": f"pair{k}", "history": [{"kind": "format", "text": a, "options": {}}, {"kind": "format", "text": a, "options": {"safe": True}}],
                             "request": {"kind": "format", "text": b, "options": req_opts}})
        for pat, rp in PATTERNS[:5]:
            k += 1
            hist.append({"id": f"pair{k}", "history": [{"kind": "format", "text": a, "options": {}}], "request": {"kind": "findall", "pattern": pat, "repl": rp, "text": FIXED_TEXTS[0]}})
    # sibling modules: formatted one after the other in one process, in both orders, with and without safe
    rs = env.rng(PROP, "siblings")
    made = 0
    for t in rs.sample(texts, len(texts)):
        sib = sibling(t, rs)
        if not sib or len(sib[0]) > 3000:
            continue
        a, b, how = sib
        for first, second in ((a, b), (b, a)):
            k += 1
            opts = rs.choice([{}, {}, {"safe": True}])
            hist.append({"id": f"sibling{k}:{how}", "history": [{"kind": "format", "text": first, "options": rs.choice([{}, opts])}],
                         "request": {"kind": "format", "text": second, "options": opts}})
        made += 1
        if made >= (150 if thorough else 45):
            break
    for a, b in SIBLING_PAIRS:
        for first, second in ((a, b), (b, a)):
            for opts in ({}, {"safe": True}):
                k += 1
                hist.append({"id": f"siblingpair{k}", "history": [{"kind": "format", "text": first, "options": opts}], "request": {"kind": "format", "text": second, "options": opts}})
    tot_h, tot_t = {}, {}
    with pool.Pool() as p, pool.Pool(oneshot=True) as fresh:
        verdict.run_witnesses(v, p)
        # (1) rules twice in a row
        tcases = [{"id": i, "text": t, "sample_for_fresh": i % 6 == 0} for i, t in enumerate(texts)]
        tcases += [{"id": f"tie{i}", "text": t, "again": 6} for i, t in enumerate(c06.TIES)]
        tcases += [{"id": f"squeezed{i}", "text": t2, "again": 2} for i, t2 in enumerate(x for x in (c06.same_line(t) for t in texts[:120 if thorough else 50]) if x)]
        tcases += [{"id": f"world{i}", "text": t, "world": w, "again": 8, "only_rules": ["tracing.fix_reimported_names", "tracing.fix_starred_imports", "fixes.fix_duplicate_imports", "fixes.sort_imports"]}
                   for i, (t, w) in enumerate(WORLD_TIES)]
        reps = p.map("harness.checks.c05:w_twice", [{"cases": tcases[i:i + 3]} for i in range(0, len(tcases), 3)], cpu_s=900)
        verdict.pool_failures(v, reps, "C05 twice")
        for rep in reps:
            if rep.get("status") == "ok":
                _merge(tot_t, rep["value"])
        # (2) histories
        reps = p.map("harness.checks.c05:w_history", [{"histories": hist[i:i + 3]} for i in range(0, len(hist), 3)], cpu_s=1200)
        verdict.pool_failures(v, reps, "C05 histories")
        for rep in reps:
            if rep.get("status") == "ok":
                _merge(tot_h, rep["value"])
        # (3) fresh-interpreter references for the requests and for a sample of first rule results
        requests = [(h["id"], h["request"]) for h in hist] + [(f"rule{i}", fr["request"]) for i, fr in enumerate(tot_t.get("first_results", []))]
        got = {x["id"]: x["got"] for x in tot_h.get("results", [])}
        got.update({f"rule{i}": fr["got"] for i, fr in enumerate(tot_t.get("first_results", []))})
        batches = [requests[i:i + 8] for i in range(0, len(requests), 8)]
        reps = fresh.map("harness.checks.c05:w_fresh", [{"requests": [q for _, q in b]} for b in batches], cpu_s=600)
        verdict.pool_failures(v, reps, "C05 fresh")
        compared = 0
        hist_by_id = {h["id"]: h for h in hist}
        for b, rep in zip(batches, reps):
            if rep.get("status") != "ok":
                continue
            for (rid, q), ref in zip(b, rep["value"]):
                if rid not in got:
                    continue
                compared += 1
                if got[rid] != ref:
                    h = hist_by_id.get(rid)
                    v.add({"kind": "result_depends_on_history", "rule": "/".join(q.get("rule", [])) or q["kind"], "input": q.get("text"),
                           "detail": {"request": _brief(q), "after_history": _short(got[rid]), "fresh_process": _short(ref), "history_length": len(h["history"]) if h else 1},
                           "replay": {"fn": "harness.checks.c05:w_history", "arg": {"histories": [h]}} if h else {"fn": "harness.checks.c05:w_twice", "arg": {"cases": [{"id": 0, "text": q.get("text")}]}}})
    v.extend(tot_h.get("violations", []))
    v.extend(tot_t.get("violations", []))
    if compared == 0:
        v.inconclusive_because("no request was compared with a fresh-process reference")
    if tot_h.get("cache_checks", 0) + tot_t.get("cache_checks", 0) == 0:
        v.inconclusive_because("the cache fidelity hook was never evaluated")
    if tot_t.get("fired", 0) == 0:
        v.inconclusive_because("no rule fired in the twice-in-a-row workload")
    cov = {
        "evaluations": tot_h.get("calls", 0) + 2 * tot_t.get("pairs", 0),
        "distinct_nontrivial": len(set(tot_t.get("nontrivial", []))) + len(hist),
        "rule": "twice-in-a-row: a case = (rule, input) called twice; non-trivial = the rule changed the text, distinct by digest. Histories: each is a distinct "
                "random sequence of 3-14 format_code / rule / sub / findall calls (35% on the request's own text) followed by a request",
        "samples": [{"history": [_brief(c) for c in hist[0]["history"][:4]], "request": _brief(hist[0]["request"])}],
        "histories": {"count": tot_h.get("histories"), "calls": tot_h.get("calls"), "compared_with_fresh_process": compared},
        "twice_in_a_row": {"pairs": tot_t.get("pairs"), "rule_fired": tot_t.get("fired"), "distinct_rules_fired": len(tot_t.get("rules_fired", {}))},
        "cache_fidelity_checks": tot_h.get("cache_checks", 0) + tot_t.get("cache_checks", 0),
    }
    return v.finish(cov, assumptions=["cache fidelity = ast.dump(tree, include_attributes=True) of the handed-out tree equals that of a fresh ast.parse of its key; "
                                      "compiled templates are serialised on first creation and compared on every later return"])


def w_rules(arg):
    from .. import hooks

    return [list(k) for k in hooks.pipeline_rules()]


def _merge(total, part):
    for k, val in part.items():
        if isinstance(val, bool):
            continue
        if isinstance(val, int):
            total[k] = total.get(k, 0) + val
        elif isinstance(val, list):
            total.setdefault(k, []).extend(val)
        elif isinstance(val, dict):
            d = total.setdefault(k, {})
            for kk, vv in val.items():
                d[kk] = d.get(kk, 0) + vv


def replay(rec) -> int:
    return verdict.generic_replay(PROP, rec)
