"""C06 - results are deterministic across processes, hash seeds and worker schedules.

(a) The same requests (format_code with options, findall, sub with count) are executed in worker groups that differ only in
PYTHONHASHSEED, allocator (PYTHONMALLOC) and heap layout (junk pre-allocation shifts id()-ordered sets); outputs must be
byte-identical. (b) Directory trees are formatted through format_files with worker counts 1..16, shuffled file lists and
injected per-file delays (H-pool); the resulting tree and return value must equal the n_cores=1 run and an independent
sequential re-implementation of the pass/folder bookkeeping.
"""
from __future__ import annotations

import os

from .. import env, verdict

PROP = "C06"
VARIANTS = [
    {"hashseed": 0, "malloc": "pymalloc", "junk": 0},
    {"hashseed": 1, "malloc": "malloc", "junk": 50000},
    {"hashseed": 2, "malloc": "pymalloc", "junk": 333333},
    {"hashseed": 3141592, "malloc": "malloc", "junk": 7},
    {"hashseed": 3, "malloc": "pymalloc", "junk": 1000},
    {"hashseed": 6, "malloc": "malloc", "junk": 0},
    {"hashseed": 4, "malloc": "pymalloc", "junk": 123457},
    {"hashseed": 5, "malloc": "malloc", "junk": 99},
    {"hashseed": 7, "malloc": "pymalloc", "junk": 31},
    {"hashseed": 271828, "malloc": "malloc", "junk": 4096},
]
COMPETING = [
    # inputs on which several candidates compete inside set-iterating code
    "import os, sys, re, json, math, time, random, itertools, functools, collections\nprint(1)\n",
    "fooBar = 1\nFooBar = 2\nfoo_bar = 3\nBazQux = 4\nbazQux = 5\nprint(fooBar, FooBar, foo_bar, BazQux, bazQux)\n",
    "def a():\n    import os\n    import sys\n    import json\n    return os, sys, json\n\n\ndef b():\n    import re\n    import math\n    import os\n    return re, math, os\n\n\nprint(a(), b())\n",
    "def f(x):\n    return x + 1\n\n\ndef g(y):\n    return y + 1\n\n\ndef h(z):\n    return z + 1\n\n\ndef k(w):\n    return w + 1\n\n\nprint(f(1), g(2), h(3), k(4))\n",
    "x = [i for i in range(10) if i > 2 if i < 8 if i != 5 if i >= 1 if i <= 9]\nprint(x)\n",
    "class A:\n    def m(self):\n        return 1\n\n    def n(self):\n        return 2\n\n    def o(self):\n        return 3\n\n    def p(self):\n        return 4\n\n\nprint(A().m())\n",
    "from os import *\nfrom sys import *\nfrom math import *\nprint(getcwd(), argv, pi)\n",
    "a = 1\nb = 2\nc = 3\nd = 4\ne = 5\nf = 6\ng = 7\nh = 8\n",
    "LONG = 'a constant that is long enough to be hoisted'\nprint('a constant that is long enough to be hoisted', 'another constant that is long enough to hoist', 'a constant that is long enough to be hoisted', 'another constant that is long enough to hoist', 'a constant that is long enough to be hoisted', 'another constant that is long enough to hoist', 'a constant that is long enough to be hoisted', 'another constant that is long enough to hoist', 'a constant that is long enough to be hoisted', 'another constant that is long enough to hoist')\n",
    "import numpy\nimport pandas\nx = np.zeros(3)\ny = pd.DataFrame()\nz = Path('.')\nw = Optional[int]\nprint(x, y, z, w, os.getcwd(), sys.argv, json.dumps(1), math.pi, re.compile('a'))\n",
]
TIES = [
    # inputs on which two candidates tie under the order the tool sorts by (same line number, same name, same count): the tie must not be broken by a set
    "import abc  # pyrefact: ignore\nsys.path.append(os.getcwd())\nprint(re.findall, json.dumps, math.pi)\n",
    "x = 1  # pyrefact: ignore\nprint(np.zeros(1), pd.NA, plt.plot, os.sep, Path('.'), Optional, defaultdict)\n",
    'a = """abc"""\nb = "abc"\nprint(list((b, a, "abc")))\n',
    "a = 'text'\nb = \"text\"\nc = \'\'\'text\'\'\'\nprint(list((a, b, c, 'text')), tuple([a, \"text\"]))\n",
    'x = 1\na = f"""abc{x}"""\nb = f"abc{x}"\nprint(list((b, a, f"abc{x}")))\n',
    "x = 2\na = f'v{x}'\nb = f\"v{x}\"\nprint(list((a, b, f'v{x}')), set([f\"v{x}\"]))\n",
    "def colours(kind):\n" + "".join(f"    v{i} = kind.f{i}((255, 128, 64, 32, 16, 8, 4, 2))\n" for i in range(6)) + "    return v0, v1, v2, v3, v4, v5\n",
    "async def colours(kind):\n" + "".join(f"    v{i} = kind.f{i}('a text that is used over and over again')\n" for i in range(6)) + "    return v0, v1, v2, v3, v4, v5\n",
    "class Colours:\n    def all(self, kind):\n" + "".join(f"        v{i} = kind.f{i}([255, 128, 64, 32, 16, 8, 4, 2])\n" for i in range(6)) + "        return v0, v1, v2, v3, v4, v5\n",
    "y = 1\nx = y + 1; print(x); print(x, 1); print(x, 2)\n",
    "def f(y):\n    x = y + 1; print(x); print(x, 1); z = x; print(z)\n    return z\n\n\nprint(f(1))\n",
    "a = 1; b = a; a = 2; print(a, b); b = 3; print(b)\n",
    "import os; import sys; import os; from os import sep; from os import sep, getcwd; print(os, sys, sep, getcwd)\n",
    "for i in range(3): x = i; y = x; print(y)\nif x: y = 1; z = y; print(z)\n",
    "def f(): return 1\ndef g(): return 1\ndef h(): return 1\nprint(f(), g(), h())\n",
    "class A: x = 1; y = 2; z = 3\nclass B: x = 1; y = 2; z = 3\nprint(A.x, B.y)\n",
    "d = {}; d['a'] = 1; d['b'] = 2; d.update({'c': 3}); s = set(); s.add(1); s.add(2); print(d, s)\n",
    "x = []\nfor i in range(3): x.append(i)\ny = []\nfor j in range(3): y.append(j); print(j)\nprint(x, y)\n",
]


def same_line(text):
    """The module with pairs of neighbouring simple statements written on one line (`a; b`): same tree, and every pair ties on its line number."""
    import ast

    try:
        tree = ast.parse(text)
    except (SyntaxError, ValueError):
        return None
    lines = text.split("\n")
    simple = (ast.Assign, ast.AugAssign, ast.AnnAssign, ast.Expr, ast.Return, ast.Pass, ast.Import, ast.ImportFrom, ast.Delete, ast.Assert, ast.Raise, ast.Global, ast.Nonlocal)
    joined = set()
    for node in ast.walk(tree):
        for field in ("body", "orelse", "finalbody"):
            body = getattr(node, field, None)
            if not isinstance(body, list):
                continue
            i = 0
            while i + 1 < len(body):
                a, b = body[i], body[i + 1]
                ok = (isinstance(a, simple) and isinstance(b, simple) and a.lineno == a.end_lineno and b.lineno == b.end_lineno and b.lineno == a.lineno + 1
                      and a.col_offset == b.col_offset and "#" not in lines[a.lineno - 1] and "#" not in lines[b.lineno - 1] and a.lineno not in joined
                      and lines[a.lineno - 1][:a.col_offset].strip() == "" and lines[b.lineno - 1][:b.col_offset].strip() == ""
                      and not (isinstance(a, ast.Expr) and isinstance(a.value, ast.Constant) and isinstance(a.value.value, str)))
                if ok:
                    joined.add(a.lineno)
                    i += 2
                else:
                    i += 1
    if not joined:
        return None
    out = []
    skip = False
    for no, line in enumerate(lines, 1):
        if skip:
            skip = False
            continue
        if no in joined:
            out.append(line.rstrip() + "; " + lines[no].strip())
            skip = True
        else:
            out.append(line)
    new = "\n".join(out)
    try:
        if ast.dump(ast.parse(new)) != ast.dump(tree):
            return None
    except (SyntaxError, ValueError):
        return None
    return new


PATTERN_REQUESTS = [("{{s}}\n{{t}}", None), ("{{f}}({{...*}})", None), ("{{a}} = {{b}}", None), ("{{x}}", None),
                    ("{{f}}({{...*}})", "g()"), ("{{a}} = {{b}}", "{{b}} = {{a}}"), ("{{s}}\n{{t}}", "pass")]


# --------------------------------------------------------------------------------- worker side
_JUNK = []


def _prepare():
    if not _JUNK:
        n = int(os.environ.get("VERIF_JUNK", "0"))
        _JUNK.append([object() for _ in range(n)])
        _JUNK.append({str(i): i for i in range(n // 10)})


def w_requests(arg):
    from .. import hooks

    _prepare()
    m = hooks.mods()
    pm = m["pattern_matching"]
    out = []
    for q in arg["requests"]:
        try:
            if q["kind"] == "format":
                opts = dict(q.get("options") or {})
                if "preserve" in opts:
                    opts["preserve"] = frozenset(opts["preserve"])
                first = m["main"].format_code(q["text"], **opts)
                rec = {"out": first}
                for k in range(q.get("again", 0)):
                    # the same request again in this process after the heap has moved: sets of syntax nodes iterate in another order
                    _JUNK.append([object() for _ in range(997 * (k + 1))])
                    m["core"].parse.cache_clear()
                    again = m["main"].format_code(q["text"], **opts)
                    if again != first:
                        rec["again_differs"] = again
                        break
                out.append(rec)
            elif q["kind"] == "findall":
                out.append({"out": pm.findall(q["pattern"], q["text"])})
            elif q["kind"] == "sub":
                out.append({"out": pm.sub(q["pattern"], q["repl"], q["text"], q.get("count", 0))})
            elif q["kind"] == "sched":
                # several rules insert / replace at the same places; transactions and groups collide
                import ast as _ast

                proc = m["processing"]
                tree = _ast.parse(q["text"])
                stmts = [n for n in _ast.walk(tree) if isinstance(n, _ast.stmt)]

                def make(g, items):
                    def rule(source):
                        if source != q["text"]:
                            return
                        for idx, name, tx in items:
                            node = stmts[idx % len(stmts)]
                            new = _ast.parse(f"{name}()").body[0]
                            _ast.copy_location(new, node)
                            yield (None, new) if tx is None else (None, new, tx)

                    rule.__name__ = f"r{g}"
                    return rule

                out.append({"out": proc.chain([make(g, items) for g, items in enumerate(q["groups"])], max_iter=1)(q["text"])})
            elif q["kind"] == "search":
                mt = pm.search(q["pattern"], q["text"])
                out.append({"out": None if mt is None else [mt.span.start, mt.span.end]})
        except Exception as exc:
            out.append({"exc": type(exc).__name__})
    return out


def _delayed_format_file(filename, *args, **kwargs):
    """H-pool: seeded pseudo-random delay before and after the real format_file; logs (pid, file, start, end)."""
    import hashlib
    import time

    from .. import hooks

    real = _delayed_format_file.real
    seed = os.environ.get("VERIF_POOL_DELAY_SEED", "")
    if seed:
        h = hashlib.sha1(f"{seed}:{os.path.basename(os.path.dirname(str(filename)))}/{os.path.basename(str(filename))}".encode()).digest()
        time.sleep((h[0] % 16) / 100.0)
    t0 = time.monotonic()
    try:
        return real(filename, *args, **kwargs)
    finally:
        if seed:
            time.sleep((h[1] % 8) / 100.0)
        log = os.environ.get("VERIF_POOL_LOG")
        if log:
            with open(log, "a") as f:
                f.write(f"{os.getpid()}\t{filename}\t{t0:.4f}\t{time.monotonic():.4f}\n")


def _snapshot(root):
    import pathlib

    out = {}
    for p in sorted(pathlib.Path(root).rglob("*")):
        if p.is_file():
            out[str(p.relative_to(root))] = p.read_bytes().decode("utf-8", "surrogateescape")
    return out


def _sequential_reference(main, root, files, preserved, max_passes, safe):
    """Independent re-implementation of format_files' bookkeeping, one file after the other, in sorted order."""
    import pathlib

    used = {main._namespace_name(f): main._used_names_in_file(f) for f in sorted(preserved)}
    folders = {}
    for f in sorted(pathlib.Path(x).absolute() for x in files):
        folders.setdefault(f.parent, []).append(f)
    state = {folder: (True, max_passes) for folder in folders}
    for _ in range(max_passes):
        todo = sorted(f for folder, fs in folders.items() if state[folder][0] and state[folder][1] > 0 for f in fs)
        if not todo:
            break
        changes = {}
        for f in todo:
            preserve = frozenset().union(*(names for ns, names in used.items() if ns != main._namespace_name(f)))
            changes[f] = main.format_file.real(f, preserve, safe) if hasattr(main.format_file, "real") else main.format_file(f, preserve, safe)
        for folder, fs in folders.items():
            state[folder] = (any(changes.get(f, False) for f in fs), state[folder][1] - 1)
    return any(ch for ch, _ in state.values())


def w_tree(arg):
    """One tree, several schedules; everything compared with the first (n_cores=1, no delays) and the sequential reference."""
    import pathlib
    import random
    import shutil
    import tempfile

    from .. import hooks

    m = hooks.mods()
    main = m["main"]
    if not hasattr(main.format_file, "real"):
        _delayed_format_file.real = main.format_file
        _delayed_format_file.__name__ = "format_file"
        _delayed_format_file.__qualname__ = "format_file"
        _delayed_format_file.__module__ = main.__name__
        main.format_file = _delayed_format_file
    res = {"runs": 0, "violations": [], "orders": [], "nontrivial": [], "files": len(arg["files"]), "samples": []}
    base = pathlib.Path(tempfile.mkdtemp(prefix="c06tree-"))
    try:
        def materialise(name):
            root = base / name / "proj"  # the same relative layout and folder names in every copy
            for rel, text in arg["files"]:
                p = root / rel
                p.parent.mkdir(parents=True, exist_ok=True)
                p.write_text(text, encoding="utf-8")
            return root

        def run(name, n_cores, order_seed, delay_seed, reference=False):
            root = materialise(name)
            files = [root / rel for rel, _ in arg["files"] if rel.endswith(".py") and not rel.startswith("clients/")]
            preserved = [root / rel for rel, _ in arg["files"] if rel.startswith("clients/")]
            random.Random(order_seed).shuffle(files)
            log = base / f"{name}.log"
            os.environ["VERIF_POOL_DELAY_SEED"] = str(delay_seed) if delay_seed else ""
            os.environ["VERIF_POOL_LOG"] = str(log)
            cwd = os.getcwd()
            for fn_ in vars(m["tracing"]).values():  # what an earlier run of this process learnt about modules of the same names is not part of this run
                if callable(fn_) and hasattr(fn_, "cache_clear"):
                    fn_.cache_clear()
            if arg.get("cwd"):
                os.chdir(root / arg["cwd"])  # (imports of sibling modules are resolved from the working directory)
            try:
                if reference:
                    rv = _sequential_reference(main, root, files, preserved, arg["max_passes"], arg["safe"])
                else:
                    rv = main.format_files(files, preserved_filenames=frozenset(preserved), n_cores=n_cores, max_passes=arg["max_passes"], safe=arg["safe"])
                exc = None
            except Exception as e:
                rv, exc = None, f"{type(e).__name__}: {e}"
            finally:
                os.chdir(cwd)
            order = []
            if log.exists():
                rows = [l.split("\t") for l in log.read_text().splitlines()]
                order = [os.path.relpath(r[1], root) for r in sorted(rows, key=lambda r: float(r[3]))]
            snap = _snapshot(root)
            shutil.rmtree(base / name, ignore_errors=True)
            return {"rv": bool(rv) if rv is not None else None, "exc": exc, "tree": snap, "order": order, "pids": len({r[0] for r in rows}) if log.exists() else 0}

        first = run("ref", 1, 0, 0)
        seq = run("seq", 1, 0, 0, reference=True)
        res["runs"] += 2
        replay = {"fn": "harness.checks.c06:w_tree", "arg": arg}
        if seq["tree"] != first["tree"] or seq["rv"] != first["rv"]:
            diff = [k for k in first["tree"] if seq["tree"].get(k) != first["tree"][k]]
            res["violations"].append({"kind": "format_files_differs_from_sequential_reference", "input": "\n".join(r for r, _ in arg["files"]),
                                      "detail": {"files_differing": diff[:5], "rv": first["rv"], "rv_reference": seq["rv"], "exc": first["exc"], "exc_reference": seq["exc"]}, "replay": replay})
        if any(first["tree"][rel] != text for rel, text in arg["files"]):
            res["nontrivial"].append(env.digest(repr(arg["files"])))
        for k, sched in enumerate(arg["schedules"]):
            got = run(f"s{k}", sched["n_cores"], sched["order_seed"], sched["delay_seed"])
            res["runs"] += 1
            res["orders"].append("|".join(got["order"]))
            if got["tree"] != first["tree"] or got["rv"] != first["rv"] or got["exc"] != first["exc"]:
                diff = [f for f in first["tree"] if got["tree"].get(f) != first["tree"][f]]
                res["violations"].append({"kind": "parallel_run_differs_from_sequential_run" if sched["n_cores"] > 1 else "run_with_another_file_order_differs", "input": "\n".join(r for r, _ in arg["files"]),
                                          "detail": {"schedule": sched, "files_differing": diff[:5], "rv": got["rv"], "rv_n_cores_1": first["rv"], "exc": got["exc"],
                                                     "first_difference": _first_diff(first["tree"], got["tree"], diff)}, "replay": replay})
            elif len(res["samples"]) < 1:
                res["samples"].append({"files": len(arg["files"]), "schedule": sched, "worker_processes_seen": got["pids"], "completion_order": got["order"][:6], "changed": first["rv"]})
    finally:
        shutil.rmtree(base, ignore_errors=True)
    return res


def _first_diff(a, b, diff):
    for f in diff[:1]:
        x, y = a.get(f, ""), b.get(f, "")
        for i, (p, q) in enumerate(zip(x.splitlines(), y.splitlines())):
            if p != q:
                return {"file": f, "line": i + 1, "n_cores_1": p[:120], "this_run": q[:120]}
        return {"file": f, "lengths": [len(x), len(y)]}
    return None


# --------------------------------------------------------------------------------- parent side
def make_tree(i, examples, clean, r, twopass=()):
    n = r.randint(8, 24)
    files = []
    folders = ["", "pkg", "pkg/sub", "other", "pkg/sub/deep"]
    for k, folder in enumerate(["slow", "slow/er", "pkg"]):
        if twopass:
            files.append((f"{folder}/two_pass_{k}.py", r.choice(list(twopass))))
    for k in range(3):
        if clean:
            files.append((f"still/clean_{k}.py", r.choice(clean)))
    for k in range(n):
        folder = r.choice(folders)
        name = "__init__.py" if (r.random() < 0.15 and not any(f[0] == os.path.join(folder, "__init__.py") for f in files)) else f"m{k}.py"
        roll = r.random()
        if roll < 0.08:
            text = "# pyrefact: skip_file\nimport os\nx=1\n"
        elif roll < 0.14:
            text = "def broken(:\n    pass\n"
        elif roll < 0.24 and clean:
            text = r.choice(clean)
        else:
            text = r.choice(examples)
        files.append((os.path.join(folder, name), text))
    # the same bytes under names that are formatted differently (__init__.py keeps its imports), before and after one another in the sorted order
    twin = r.choice(["import os\nimport sys\n\n\ndef f():\n    return 1\n", "from os import sep\n\n\nVALUE = 1\n", "import json\n\n\nclass K:\n    pass\n"])
    for folder in ("twins", "twins/inner"):
        files += [(f"{folder}/__init__.py", twin), (f"{folder}/mtwin.py", twin), (f"{folder}/A_before_init.py", twin)]
    files.append(("clients/client_a.py", "from pkg.m1 import foo, Bar\nimport other\nprint(foo, Bar.method, other.m2.value, other.helper())\n"))
    files.append(("clients/client_b.py", "import pkg\nx = pkg.sub.thing.attr\nprint(x.someAttr, fooBar)\n"))
    files.append(("notes.txt", "not python\n"))
    return files


def main() -> int:
    from .. import pool
    from ..gen import corpus

    v = verdict.Verdict(PROP)
    thorough = env.tier() == "thorough"
    r = env.rng(PROP, "main")
    import textwrap

    ex = [textwrap.dedent(t) for o, t in corpus.repo_examples(2) if len(t) < 2500]
    from . import c05, c09

    # (the hand-written texts of C05 / C09 too: several numbered generated constants, guessed imports in a doc-stringed module, competing rewrites)
    sampled = r.sample(ex, 500 if thorough else 150)
    squeezed = [t2 for t2 in (same_line(t) for t in sampled[:300 if thorough else 90]) if t2]
    texts = COMPETING + list(c05.FIXED_TEXTS) + list(c09.ANTAGONISTS[:6]) + sampled + squeezed
    requests = []
    for t in TIES:
        for o in ({}, {"safe": True}):
            requests.append({"kind": "format", "text": t, "options": o, "again": 6})
    for i, t in enumerate(texts):
        requests.append({"kind": "format", "text": t, "options": [{}, {"safe": True}, {"keep_imports": True}, {"max_line_length": 60}][i % 4], "again": 2 if (t in squeezed or i % 5 == 0) else 0})
        if i % 3 == 0:
            pat, rep = PATTERN_REQUESTS[(i // 3) % len(PATTERN_REQUESTS)]
            if rep is None:
                requests.append({"kind": "findall", "pattern": pat, "text": t})
                requests.append({"kind": "search", "pattern": pat, "text": t})
            else:
                requests.append({"kind": "sub", "pattern": pat, "repl": rep, "text": t, "count": 1})
    for i in range(60 if thorough else 20):
        rr = env.rng(PROP, "sched", i)
        groups = [[(rr.randrange(4), f"M{g}_{k}", rr.choice([None, None, 1, 2])) for k in range(rr.randint(1, 4))] for g in range(rr.randint(1, 3))]
        requests.append({"kind": "sched", "text": "a = 1\nif a:\n    b = 2\n    c = 3\nd = 4\n", "groups": groups})
    batches = [requests[i:i + 10] for i in range(0, len(requests), 10)]
    outputs = []
    variants = VARIANTS if thorough else VARIANTS[:6]
    for var in variants:
        with pool.Pool(n=16, hashseed=var["hashseed"], extra_env={"PYTHONMALLOC": var["malloc"], "VERIF_JUNK": var["junk"]}) as p:
            reps = p.map("harness.checks.c06:w_requests", [{"requests": b} for b in batches], cpu_s=900)
            verdict.pool_failures(v, reps, f"C06 requests {var}")
            outputs.append([rep["value"] if rep.get("status") == "ok" else None for rep in reps])
    compared, nontrivial = 0, set()
    for bi, b in enumerate(batches):
        cols = [o[bi] for o in outputs]
        if any(c is None for c in cols):
            continue
        for qi, q in enumerate(b):
            vals = [c[qi] for c in cols]
            compared += 1
            if vals[0].get("out") not in (None, q.get("text"), []):
                nontrivial.add(env.digest(repr(q)))
            for vi, x in enumerate(vals):
                if "again_differs" in x:
                    v.add({"kind": "output_differs_within_one_process", "rule": q["kind"], "input": q["text"],
                           "detail": {"request": {kk: vv for kk, vv in q.items() if kk != "text"}, "variant": VARIANTS[vi], "first": _short({"out": x.get("out")}), "again": _short({"out": x["again_differs"]})},
                           "replay": {"fn": "harness.checks.c06:w_requests", "arg": {"requests": [q]}}})
                    break
            vals = [{kk: vv for kk, vv in x.items() if kk != "again_differs"} for x in vals]
            if any(x != vals[0] for x in vals[1:]):
                k = next(i for i, x in enumerate(vals) if x != vals[0])
                v.add({"kind": "output_differs_between_processes", "rule": q["kind"], "input": q["text"],
                       "detail": {"request": {kk: vv for kk, vv in q.items() if kk != "text"}, "variant_a": VARIANTS[0], "variant_b": VARIANTS[k],
                                  "a": _short(vals[0]), "b": _short(vals[k])},
                       "replay": {"fn": "harness.checks.c06:w_requests", "arg": {"requests": [q]}}})
    # (b) trees
    with pool.Pool(n=1) as p0:
        rep = p0.map("harness.checks.c06:w_requests", [{"requests": [{"kind": "format", "text": t, "options": {}} for t in ex[:12]]}])[0]
    clean = [x["out"] for x in rep["value"] if x.get("out")] if rep.get("status") == "ok" else []
    # files that need two passes make the per-folder pass bookkeeping observable
    cand = ex[:400 if thorough else 240]
    with pool.Pool() as p1:
        b1 = [cand[i:i + 8] for i in range(0, len(cand), 8)]
        r1 = p1.map("harness.checks.c06:w_requests", [{"requests": [{"kind": "format", "text": t, "options": {}} for t in b]} for b in b1], cpu_s=600)
        o1 = [(x.get("out") if r.get("status") == "ok" else None) for r in r1 for x in (r["value"] if r.get("status") == "ok" else [])]
        b2 = [o1[i:i + 8] for i in range(0, len(o1), 8)]
        r2 = p1.map("harness.checks.c06:w_requests", [{"requests": [{"kind": "format", "text": t or "", "options": {}} for t in b]} for b in b2], cpu_s=600)
        o2 = [x.get("out") for r in r2 for x in (r["value"] if r.get("status") == "ok" else [])]
    twopass = [t for t, a, b in zip(cand, o1, o2) if a is not None and b is not None and a != b and a != t]
    trees = []
    for i in range(14 if thorough else 5):
        rr = env.rng(PROP, "tree", i)
        files = make_tree(i, ex, clean, rr, twopass)
        scheds = [{"n_cores": n, "order_seed": rr.randrange(10**6), "delay_seed": rr.randrange(1, 10**6)} for n in ([2, 3, 5, 8, 16] if thorough else [2, 5, 16])]
        scheds.append({"n_cores": rr.choice([3, 7, 16]), "order_seed": rr.randrange(10**6), "delay_seed": 0})
        trees.append({"files": files, "schedules": scheds, "safe": bool(i % 3 == 1), "max_passes": 1 if i % 2 else 5})
    # modules that star-import a sibling which is formatted in the same run: the result must not depend on which of the two is formatted first
    star_files = [("lib/a_lib.py", "def helper(x):\n    return x + 1\n\n\ndef unused_thing(y):\n    return y * 2\n"),
                  ("lib/z_user.py", "from a_lib import *\n\nprint(helper(3))\nprint(unused_thing(4))\n"),
                  ("lib/b_user.py", "from a_lib import *\n\nprint(helper(5))\n"),
                  ("lib/c_plain.py", "import os\nprint(os.sep)\n")]
    for safe in (False, True):
        trees.append({"files": star_files, "safe": safe, "max_passes": 1, "cwd": "lib",
                      "schedules": [{"n_cores": n, "order_seed": 7, "delay_seed": d} for n in (2, 4) for d in (0, 11, 12, 13)]})
    tot = {}
    with pool.Pool(n=4) as p:
        verdict.run_witnesses(v, p)
        reps = p.map("harness.checks.c06:w_tree", trees, cpu_s=3000)
        verdict.pool_failures(v, reps, "C06 trees")
        for rep in reps:
            if rep.get("status") == "ok":
                _merge(tot, rep["value"])
    v.extend(tot.get("violations", []))
    orders = set(tot.get("orders", []))
    if compared == 0:
        v.inconclusive_because("no request was compared across process variants")
    if tot.get("runs", 0) == 0:
        v.inconclusive_because("no directory tree was formatted")
    if len(orders) < 2:
        v.inconclusive_because("fewer than two distinct completion orders were produced: the schedule dimension was not explored")
    cov = {
        "evaluations": compared * len(variants) + tot.get("runs", 0),
        "distinct_nontrivial": len(nontrivial) + len(set(tot.get("nontrivial", []))),
        "rule": "(a) a case = one request executed in 4 process variants (hash seed x allocator x heap junk); non-trivial = the request produced a change / a "
                "non-empty result, distinct by digest. (b) a case = one format_files run of a generated tree under one schedule; non-trivial = the tree was changed",
        "samples": tot.get("samples", [])[:2] or [{"note": "none"}],
        "process_variants": variants,
        "requests_compared": compared,
        "two_pass_files_available": len(twopass),
        "trees": {"trees": len(trees), "format_files_runs": tot.get("runs"), "distinct_completion_orders": len(orders), "files": tot.get("files")},
    }
    return v.finish(cov, assumptions=["Linux fork start method; no symlink aliasing of one file under two names",
                                      "ASLR adds address variation on top of the explicit hash-seed / allocator / junk variants"])


def _short(r):
    return {k: (v[-600:] if isinstance(v, str) else v) for k, v in r.items()}


def _merge(total, part):
    for k, val in part.items():
        if isinstance(val, bool):
            continue
        if isinstance(val, int):
            total[k] = total.get(k, 0) + val
        elif isinstance(val, list):
            total.setdefault(k, []).extend(val)


def replay(rec) -> int:
    fn = rec["replay"]["fn"]
    if fn.endswith("w_requests"):
        # a cross-process comparison: re-run the request under every variant
        from .. import pool

        outs = []
        for var in VARIANTS:
            with pool.Pool(n=1, hashseed=var["hashseed"], extra_env={"PYTHONMALLOC": var["malloc"], "VERIF_JUNK": var["junk"]}) as p:
                outs.append(p.map(fn, [rec["replay"]["arg"]])[0].get("value"))
        if any("again_differs" in x for o in outs for x in (o or []) if isinstance(x, dict)):
            print(f"reproduced: the same request gives another output later in one process\nVIOLATION property={PROP} replay=(replayed)")
            return 1
        if any(o != outs[0] for o in outs[1:]):
            print(f"reproduced: outputs differ between process variants\nVIOLATION property={PROP} replay=(replayed)")
            return 1
        print("not reproduced")
        return 0
    return verdict.generic_replay(PROP, rec)
