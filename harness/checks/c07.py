"""C07 - safe mode never removes or renames a module's public surface.

Two deliberately different extractors: the input side (what must survive) is the statement's own list computed from
the ast; the output side (what counts as still defined under the same name) is the weakest reading: the name is bound
in any way in the corresponding scope (symtable). A lost name is attributed to the pipeline step that dropped it.
"""
from __future__ import annotations

import ast
import symtable

from .. import env, verdict

PROP = "C07"


def surface(text):
    """Names that must survive: top-level defs/classes, Name targets of top-level assignments, and for every top-level class
    its methods and the Name targets assigned in its body (as Class.attr)."""
    tree = ast.parse(text)
    out = set()

    def targets(node):
        if isinstance(node, ast.Name):
            yield node.id
        elif isinstance(node, (ast.Tuple, ast.List)):
            for e in node.elts:
                yield from targets(e)
        elif isinstance(node, ast.Starred):
            yield from targets(node.value)

    def assigned(stmt):
        if isinstance(stmt, ast.Assign):
            for t in stmt.targets:
                yield from targets(t)
        elif isinstance(stmt, (ast.AnnAssign, ast.AugAssign)):
            if isinstance(stmt, ast.AnnAssign) and stmt.value is None:
                return
            yield from targets(stmt.target)

    for st in tree.body:
        if isinstance(st, (ast.FunctionDef, ast.AsyncFunctionDef, ast.ClassDef)):
            out.add(st.name)
        out.update(assigned(st))
        if isinstance(st, ast.ClassDef):
            for sub in st.body:
                if isinstance(sub, (ast.FunctionDef, ast.AsyncFunctionDef)):
                    out.add(f"{st.name}.{sub.name}")
                for n in assigned(sub):
                    out.add(f"{st.name}.{n}")
    return out


def bound(text):
    """Names bound in any way at module level, and `Class.name` for names bound in the body of a module-level class."""
    table = symtable.symtable(text, "<c07>", "exec")
    out = set()
    for sym in table.get_symbols():
        if sym.is_assigned() or sym.is_namespace() or sym.is_imported():
            out.add(sym.get_name())
    children = []
    for child in table.get_children():
        # PEP 695: a generic class sits inside an annotation scope of its own
        children.extend(child.get_children() if child.get_type() not in ("class", "function") else [child])
    for child in children:
        if child.get_type() == "class":
            cls = child.get_name()
            prefix = "_" + cls.lstrip("_") + "__"
            for sym in child.get_symbols():
                if sym.is_assigned() or sym.is_namespace() or sym.is_imported():
                    out.add(f"{cls}.{sym.get_name()}")
                    if sym.get_name().startswith(prefix):  # symtable reports private names mangled
                        out.add(f"{cls}.__{sym.get_name()[len(prefix):]}")
    return out


# --------------------------------------------------------------------------------- worker side
def w_safe(arg):
    from .. import trace

    res = {"cases": 0, "surface_names": 0, "kept": 0, "violations": [], "nontrivial": [], "samples": [], "crashed": 0, "changed": 0}
    for case in arg["cases"]:
        text = case["text"]
        try:
            want = surface(text)
        except (SyntaxError, ValueError):
            continue
        opts = dict(case.get("options") or {}, safe=True)
        if res["cases"] % 2 == 0:
            # a history: the same module was formatted without the option a moment ago, in this process (what an editor plug-in or a second
            # pass of a script does); whatever the tool remembers from that call must not leak into the safe one
            try:
                from .. import hooks

                hooks.mods()["main"].format_code(text, **dict(case.get("options") or {}))
                res["unsafe_calls_before"] = res.get("unsafe_calls_before", 0) + 1
            except Exception:
                pass
        out, crash, steps = trace.traced_format(text, opts)
        if crash:
            res["crashed"] += 1
            continue
        res["cases"] += 1
        try:
            have = bound(out)
        except (SyntaxError, ValueError):
            continue
        if out != text:
            res["changed"] += 1
            if want:
                res["nontrivial"].append(env.digest(text))
        res["surface_names"] += len(want)
        lost = sorted(want - have)
        res["kept"] += len(want) - len(lost)
        for name in lost:
            step = None
            for s in steps:
                try:
                    if name in bound(s["in"]) and name not in bound(s["out"]):
                        step = s
                        break
                except (SyntaxError, ValueError):
                    continue
            detail = {"name": name, "options": case.get("options"), "attributed_rule": step["rule"] if step else None, "out": out[-1200:]}
            if step:
                from . import c02

                detail["step_before"], detail["step_after"] = step["in"], step["out"]
                detail["text_diff"] = c02._text_diff(step["in"], step["out"])
            if len(res["violations"]) < 60:
                res["violations"].append({"kind": "surface_name_lost", "rule": "main.format_code", "input": text, "detail": detail,
                                          "replay": {"fn": "harness.checks.c07:w_safe", "arg": {"cases": [case]}}})
        if not lost and out != text and len(res["samples"]) < 1 and len(text) < 600 and len(want) >= 3:
            res["samples"].append({"input": text, "surface": sorted(want), "output": out})
    return res


def w_entrypoints(arg):
    """format_file(safe=True) and the CLI --safe on files: same post-condition on the file content."""
    import pathlib
    import shutil
    import subprocess
    import sys
    import tempfile

    from .. import hooks

    m = hooks.mods()
    res = {"file_runs": 0, "cli_runs": 0, "violations": [], "nontrivial": []}
    tmp = pathlib.Path(tempfile.mkdtemp(prefix="c07-"))
    try:
        for case in arg["cases"]:
            text = case["text"]
            try:
                want = surface(text)
            except (SyntaxError, ValueError):
                continue
            for mode in ("api", "cli") if case.get("cli") else ("api",):
                path = tmp / f"mod_{mode}.py"
                path.write_text(text, encoding="utf-8")
                try:
                    if mode == "api":
                        m["main"].format_file(path, safe=True)
                        res["file_runs"] += 1
                    else:
                        subprocess.run([sys.executable, "-m", "pyrefact", "--safe", "--n_cores", "1", str(path)], capture_output=True, text=True, timeout=600)
                        res["cli_runs"] += 1
                    have = bound(path.read_text(encoding="utf-8"))
                except Exception:
                    continue
                res["nontrivial"].append(env.digest(mode + text))
                for name in sorted(want - have):
                    res["violations"].append({"kind": "surface_name_lost", "rule": f"format_file/{mode}", "input": text, "detail": {"name": name, "entry": mode, "out": path.read_text()[-800:]},
                                              "replay": {"fn": "harness.checks.c07:w_entrypoints", "arg": {"cases": [case]}}})
    finally:
        shutil.rmtree(tmp, ignore_errors=True)
    return res


# --------------------------------------------------------------------------------- parent side
UNTIDY = [
    # statements that nothing gets past, directly in the module body and in a class body, followed by more of the surface (a script whose entry point comes
    # first, a deprecation stub, a plug-in that refuses to load)
    "import sys\n\n\ndef main():\n    return helperOne() + LATE_CONSTANT\n\n\nif len(sys.argv) > 99:\n    raise SystemExit(main())\n\n\ndef helperOne():\n    return 1\n\n\nLATE_CONSTANT = 2\n\n\nclass LateClass:\n    attr = 3\n",
    "def first():\n    return 1\n\n\nraise SystemExit(first())\n\n\ndef secondFunc():\n    return 2\n\n\nSECOND_CONSTANT = 5\nclass AfterRaise:\n    pass\n",
    "def early():\n    return 1\n\n\nassert False, 'this module is a stub'\n\n\ndef lateFunc():\n    return 2\n\n\nlateValue = 3\n",
    "import warnings\n\n\nwhile True:\n    warnings.warn('spin')\n\n\ndef never_reached_but_defined_for_importers():\n    return 1\n\n\nAFTER_LOOP = 1\n",
    "class Stub:\n    first_attr = 1\n\n    def before(self):\n        return 1\n\n    raise NotImplementedError('abstract')\n\n    def afterRaise(self):\n        return 2\n\n    late_attr = 2\n",
    "import sys\nif True:\n    sys.exit(0)\n\n\ndef after_exit():\n    return 1\n\n\nAFTER_EXIT = 2\n",
    # async methods, class attributes bound by tuple / list / starred unpacking, annotated and augmented class attributes, nested definitions
    "import asyncio\n\n\nclass JobRunner:\n    RED, GREEN, blueValue = 1, 2, 3\n    lowest, *restVals = 1, 2, 3\n    [firstVal, secondVal] = 4, 5\n    (innerA, (innerB, innerC)) = 6, (7, 8)\n"
    "    counterValue: int = 0\n    counterValue += 1\n\n    async def fromConfig(self, cfg):\n        return cfg\n\n    async def runAll(self):\n        await asyncio.sleep(0)\n\n"
    "    @classmethod\n    async def shutDown(cls):\n        return 1\n\n    @property\n    def sizeHint(self):\n        return 3\n\n    @staticmethod\n    async def helperTask():\n        return 2\n\n\n"
    "async def topLevelTask():\n    return JobRunner\n\n\nAlpha, (Beta, *gammaRest) = 1, (2, 3, 4)\n[deltaOne, deltaTwo] = 5, 6\nfor loopVar in range(1):\n    pass\nwith open(__file__) as handleVar:\n    pass\n",
    "import os\nfrom typing import List\n\nunusedValue = 1\n_private_thing = 2\nCamelVar = 3\n_ = os.sep\nx, (y, *z) = 1, (2, 3)\ncounter: int = 0\ncounter += 1\n\n\ndef unusedFunction(a):\n    return a\n\n\nasync def unusedAsync():\n    return 1\n\n\ndef unusedFunction2(b):\n    return b\n\n\nclass lowercase_class:\n    classAttr = 1\n    _hidden = 2\n\n    def setUp(self):\n        pass\n\n    def NotUsingSelf(self):\n        return 1\n\n    @staticmethod\n    def staticOne():\n        return 2\n\n    class Inner:\n        pass\n",
    "class HTTPStatus:\n    OK = 200\n    NOT_FOUND = 404\n\n    def getMandatoryRelease(self):\n        return self.OK\n\n    def phrase(self):\n        return 'x'\n\n\nALL_CAPS = HTTPStatus.OK\nmixedCase = HTTPStatus().getMandatoryRelease()\n",
    "def f(x):\n    return x + 1\n\n\ndef g(y):\n    return y + 1\n\n\ndef h(z):\n    return z + 1\n\n\nresult = f(1)\nif result:\n    conditional_name = 1\nfor loop_var in range(2):\n    pass\nwith open(__file__) as with_target:\n    pass\n",
    "import gettext\n_ = gettext.gettext\n__all__ = ['a']\n__version__ = '1'\na = b = c = 0\nd = e = a\n\n\nclass K:\n    x = y = 1\n    z: int = 2\n    w: int\n\n    def __init__(self):\n        self.attr = 1\n\n    def __repr__(self):\n        return 'K'\n",
    "try:\n    import json\nexcept ImportError:\n    json = None\nVALUE = 1\nVALUE = 2\n\n\ndef VALUE_func():\n    return VALUE\n\n\nVALUE_func = VALUE_func\ndel VALUE\n",
]


def main() -> int:
    from .. import pool
    from ..gen import corpus, hostile, programs

    v = verdict.Verdict(PROP)
    thorough = env.tier() == "thorough"
    r = env.rng(PROP, "main")
    cases = [{"id": f"untidy{i}", "text": t, "options": o} for i, t in enumerate(UNTIDY) for o in ({}, {"keep_imports": True}, {"max_line_length": 60})]
    for i in range(1500 if thorough else 220):
        text, names = programs.program((env.seed(), "C07", i), style="untidy", wrap=r.choice(["module", "module", "function", "method"]))
        cases.append({"id": f"G1:{i}", "text": text, "options": [{}, {"keep_imports": True}][i % 2]})
    import textwrap

    ex = corpus.repo_examples()
    for o, t in (ex if thorough else r.sample(ex, 260)):
        cases.append({"id": f"example:{o}", "text": textwrap.dedent(t), "options": {}})
    for n in sorted(hostile.CONSTRUCTS):
        cases.append({"id": f"zoo:{n}", "text": hostile.CONSTRUCTS[n], "options": {}})
    for o, t in corpus.stdlib_files(20000 if thorough else 7000, limit=160 if thorough else 36):
        cases.append({"id": f"stdlib:{o}", "text": t, "options": {}})
    cases.sort(key=lambda c: -len(c["text"]))
    tasks, cur = [], []
    for c in cases:
        cur.append(c)
        if len(cur) >= (1 if len(c["text"]) > 2500 else 5):
            tasks.append({"cases": cur})
            cur = []
    if cur:
        tasks.append({"cases": cur})
    ecases = [{"id": c["id"], "text": c["text"], "cli": i % 6 == 0} for i, c in enumerate(r.sample(cases, 90 if thorough else 24))]
    tot, tot_e = {}, {}
    with pool.Pool() as p:
        verdict.run_witnesses(v, p)
        reps = p.map("harness.checks.c07:w_safe", tasks, cpu_s=1500)
        verdict.pool_failures(v, reps, "C07 safe")
        for rep in reps:
            if rep.get("status") == "ok":
                _merge(tot, rep["value"])
        reps = p.map("harness.checks.c07:w_entrypoints", [{"cases": ecases[i:i + 2]} for i in range(0, len(ecases), 2)], cpu_s=1500)
        verdict.pool_failures(v, reps, "C07 entry points")
        for rep in reps:
            if rep.get("status") == "ok":
                _merge(tot_e, rep["value"])
    v.extend(tot.get("violations", []))
    v.extend(tot_e.get("violations", []))
    if tot.get("surface_names", 0) == 0 or tot.get("changed", 0) == 0:
        v.inconclusive_because("no module with a surface was changed by safe formatting")
    cov = {
        "evaluations": tot.get("cases", 0) + tot_e.get("file_runs", 0) + tot_e.get("cli_runs", 0),
        "distinct_nontrivial": len(set(tot.get("nontrivial", []))) + len(set(tot_e.get("nontrivial", []))),
        "rule": "a case = one module through format_code(safe=True) (or format_file / the CLI --safe); non-trivial = the module has a surface and safe formatting "
                "changed its text; distinct by digest",
        "samples": tot.get("samples", [])[:2] or [{"note": "none"}],
        "modules": {k: tot.get(k) for k in ("cases", "changed", "crashed", "unsafe_calls_before")},
        "surface_names_checked": tot.get("surface_names"), "surface_names_kept": tot.get("kept"),
        "entry_points": {k: tot_e.get(k) for k in ("file_runs", "cli_runs")},
    }
    return v.finish(cov, assumptions=["surface = the statement's list (imports, loop and with targets excluded); still defined = bound in any way in the same scope of the output (symtable)"])


def _merge(total, part):
    for k, val in part.items():
        if isinstance(val, bool):
            continue
        if isinstance(val, int):
            total[k] = total.get(k, 0) + val
        elif isinstance(val, list):
            total.setdefault(k, []).extend(val)


def replay(rec) -> int:
    return verdict.generic_replay(PROP, rec)
