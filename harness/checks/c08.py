"""C08 - preserved names survive, within a file and across files.

(a) format_code(lib, preserve=P) for *all* subsets P of a generated library's names: every preserved name that the library
defines is still bound under that name (symtable, as in C07). (b) generated client modules use a random subset of the
library by from-import, module attribute, instance attribute and aliases; the library is formatted through format_files /
the CLI with the client as preserved file (same folder and different folders, 1 and 5 passes) and the client is executed
against the library before and after: identical stdout, no exception.
"""
from __future__ import annotations

import itertools
import os

from .. import env, verdict
from . import c07

PROP = "C08"


def make_library(r):
    """Returns (text, top-level names, {class: member names})."""
    style = lambda base: r.choice([base, base, _camel(base), base.upper() if r.random() < 0.2 else base, "_" + base if r.random() < 0.15 else base])  # noqa: E731
    n = {k: style(k) for k in ["const_value", "other_const", "helper_func", "camel_case_func", "unused_one", "dup_a", "dup_b", "widget", "get_value", "no_self", "make_default", "kind_name", "spare_class", "build_widget", "shared_widget", "verbose_mode", "read_flag"]}
    gap = r.choice(["\n\n\n", "\n\n", "\n"])
    parts = [
        "import math\nimport os",
        f"{n['const_value']} = 3\n{n['other_const']} = 'x' * {n['const_value']}",
        f"def {n['helper_func']}(a):\n    b = a + 1\n    return b",
        f"def {n['camel_case_func']}(a):\n    if a:\n        return {n['helper_func']}(a) * 2\n    else:\n        return 0",
        f"def {n['unused_one']}():\n    return math.floor(1.5)",
        f"def {n['dup_a']}(x):\n    return x * 3 + 1",
        f"def {n['dup_b']}(y):\n    return y * 3 + 1",
        f"class {n['widget']}:\n    {n['kind_name']} = 'w'\n\n    def __init__(self, v):\n        self.v = v\n\n    def {n['get_value']}(self):\n        return self.v\n\n"
        f"    def {n['no_self']}(self):\n        return 42\n\n    @staticmethod\n    def {n['make_default']}():\n        return {n['widget']}(0)",
        f"class {n['spare_class']}:\n    pass",
        f"def {n['build_widget']}(v):\n    return {n['widget']}(v)",
        f"{n['shared_widget']} = {n['widget']}(7)",
        f"{n['verbose_mode']} = 0\n\n\ndef {n['read_flag']}():\n    return {n['verbose_mode']}",
    ]
    text = gap.join(parts) + "\n"
    top = [n[k] for k in ("const_value", "other_const", "helper_func", "camel_case_func", "unused_one", "dup_a", "dup_b", "widget", "spare_class", "build_widget", "shared_widget", "verbose_mode", "read_flag")]
    members = {n["widget"]: [n[k] for k in ("get_value", "no_self", "make_default", "kind_name")]}
    return text, top, members, n


def _camel(s):
    a = s.split("_")
    return a[0] + "".join(x.capitalize() for x in a[1:])


def make_client(r, modname, n):
    """A client using a random subset of the library in several access forms. Returns (text, names it depends on)."""
    lines, used = [], set()
    forms = r.sample(range(13), r.randint(2, 5))
    for f in forms:
        if f == 0:
            lines += [f"from {modname} import {n['helper_func']}", f"print('h', {n['helper_func']}(2))"]
            used.add(n["helper_func"])
        elif f == 1:
            lines += [f"import {modname}", f"print('c', {modname}.{n['camel_case_func']}(3), {modname}.{n['camel_case_func']}(0))"]
            used.add(n["camel_case_func"])
        elif f == 2:
            lines += [f"from {modname} import {n['widget']} as W", f"print('w', W(5).{n['get_value']}(), W.{n['make_default']}().v, W.{n['kind_name']})"]
            used |= {n["widget"], n["get_value"], n["make_default"], n["kind_name"]}
        elif f == 3:
            lines += [f"import {modname} as L", f"print('k', L.{n['const_value']}, L.{n['other_const']})"]
            used |= {n["const_value"], n["other_const"]}
        elif f == 4:
            lines += [f"import {modname}", f"print('d', {modname}.{n['dup_a']}(2), {modname}.{n['dup_b']}(2))"]
            used |= {n["dup_a"], n["dup_b"]}
        elif f == 5:
            lines += [f"import {modname}", f"obj = {modname}.{n['widget']}(1)", f"print('n', obj.{n['no_self']}(), obj.v)"]
            used |= {n["widget"], n["no_self"]}
        elif f == 6:
            lines += [f"from {modname} import {n['unused_one']}, {n['spare_class']}", f"print('u', {n['unused_one']}(), {n['spare_class']}.__name__ is not None)"]
            used |= {n["unused_one"], n["spare_class"]}
        elif f == 7:
            lines += [f"from {modname} import {n['dup_b']} as other", f"print('o', other(1))"]
            used.add(n["dup_b"])
        elif f == 8:  # an instance from a factory: the class is never named
            lines += [f"from {modname} import {n['build_widget']}", f"made = {n['build_widget']}(2)",
                      f"print('f', made.{n['get_value']}(), made.{n['make_default']}().v, made.{n['no_self']}(), made.{n['kind_name']})"]
            used |= {n["build_widget"], n["get_value"], n["make_default"], n["no_self"], n["kind_name"]}
        elif f == 9:  # a module-level instance
            lines += [f"import {modname} as M", f"print('s', M.{n['shared_widget']}.{n['make_default']}().v, M.{n['shared_widget']}.{n['get_value']}())"]
            used |= {n["shared_widget"], n["make_default"], n["get_value"]}
        elif f == 11:  # the client only writes the attribute (configuration / monkeypatch style): assignment, augmented assignment
            lines += [f"import {modname} as cfg", r.choice([f"cfg.{n['verbose_mode']} = 5", f"cfg.{n['verbose_mode']} += 2"]), f"print('v', cfg.{n['read_flag']}())"]
            used |= {n["verbose_mode"], n["read_flag"]}
        elif f == 12:  # names only used in a decorator, an annotation, a default value, an f-string, __all__
            lines += [f"from {modname} import {n['helper_func']}, {n['spare_class']}, {n['const_value']}, {n['dup_a']}", f"__all__ = ['{n['dup_a']}']",
                      f"def call(arg: {n['spare_class']} = None, size={n['const_value']}):", f"    return f'{{{n['helper_func']}(size)}}'", "print('a', call())"]
            used |= {n["helper_func"], n["spare_class"], n["const_value"], n["dup_a"]}
        else:  # a facade: names are imported (and re-exported) but never used
            lines += [f"from {modname} import {n['helper_func']}, {n['dup_a']} as facade_dup, {n['const_value']}, {n['spare_class']}",
                      f"__all__ = ['{n['helper_func']}', 'facade_dup', '{n['const_value']}', '{n['spare_class']}']", "print('facade')"]
            used |= {n["helper_func"], n["dup_a"], n["const_value"], n["spare_class"]}
    return "\n".join(lines) + "\n", used


# --------------------------------------------------------------------------------- worker side
def w_subsets(arg):
    from .. import hooks

    m = hooks.mods()
    res = {"calls": 0, "names_checked": 0, "kept": 0, "violations": [], "nontrivial": [], "samples": [], "crashed": 0}
    for case in arg["cases"]:
        lib, members = case["lib"], case["members"]
        for P in case["subsets"]:
            try:
                out = m["main"].format_code(lib, preserve=frozenset(P), safe=case.get("safe", False))
            except Exception:
                res["crashed"] += 1
                continue
            res["calls"] += 1
            try:
                have = c07.bound(out)
            except (SyntaxError, ValueError):
                continue
            if out != lib:
                res["nontrivial"].append(env.digest(lib + repr(sorted(P))))
            for name in P:
                owner = next((cls for cls, ms in members.items() if name in ms), None)
                if owner is not None:
                    if owner not in P and owner not in have:
                        continue  # the class is neither preserved nor kept: whether a member of a deleted class must survive is left open
                    ok = f"{owner}.{name}" in have
                else:
                    ok = name in have
                res["names_checked"] += 1
                if ok:
                    res["kept"] += 1
                elif len(res["violations"]) < 60:
                    res["violations"].append({"kind": "preserved_name_lost", "rule": "main.format_code", "input": lib,
                                              "detail": {"name": name, "preserve": sorted(P), "member_of": owner, "out": out[-1500:]},
                                              "replay": {"fn": "harness.checks.c08:w_subsets", "arg": {"cases": [dict(case, subsets=[P])]}}})
            if len(res["samples"]) < 1 and 2 <= len(P) <= 4 and out != lib:
                res["samples"].append({"preserve": sorted(P), "library": lib, "output": out})
    return res


def _run_client(root, rel):
    import subprocess
    import sys

    proc = subprocess.run([sys.executable, rel], cwd=root, capture_output=True, text=True, timeout=120,
                          env=dict(os.environ, PYTHONPATH=str(root), PYTHONDONTWRITEBYTECODE="1", PYTHONHASHSEED="0"))
    return proc.returncode, proc.stdout, proc.stderr[-400:]


def w_clients(arg):
    import pathlib
    import shutil
    import subprocess
    import sys
    import tempfile

    from .. import hooks

    m = hooks.mods()
    res = {"scenarios": 0, "violations": [], "nontrivial": [], "samples": [], "client_not_runnable": 0, "cli_runs": 0}
    base = pathlib.Path(tempfile.mkdtemp(prefix="c08-"))
    try:
        for k, case in enumerate(arg["cases"]):
            root = base / f"s{k}"
            libdir = root / case["lib_dir"] if case["lib_dir"] else root
            clientdir = root / case["client_dir"] if case["client_dir"] else root
            libdir.mkdir(parents=True, exist_ok=True)
            clientdir.mkdir(parents=True, exist_ok=True)
            libpath = libdir / "lib_mod.py"
            libpath.write_text(case["lib"], encoding="utf-8")
            if case["lib_dir"]:
                (libdir / "__init__.py").write_text("", encoding="utf-8")
            clientpath = clientdir / "client_main.py"
            clientpath.write_text(case["client"], encoding="utf-8")
            before = _run_client(root, str(clientpath.relative_to(root)))
            if before[0] != 0:
                res["client_not_runnable"] += 1
                continue
            cwd = os.getcwd()
            try:
                if case.get("cli"):
                    args = [sys.executable, "-m", "pyrefact", str(libpath), "--preserve", str(clientpath), "--n_cores", "1"] + (["--safe"] if case.get("safe") else [])
                    subprocess.run(args, capture_output=True, text=True, timeout=900, cwd=root, env=dict(os.environ, PYTHONPATH=os.environ.get("VERIF_REPO", "/repo")))
                    res["cli_runs"] += 1
                else:
                    m["main"].format_files([libpath], preserved_filenames=frozenset([clientpath]), n_cores=1, max_passes=case.get("max_passes", 5), safe=case.get("safe", False))
            except Exception as exc:
                res["violations"].append({"kind": "format_files_raised", "rule": "main.format_files", "input": case["lib"], "detail": {"exc": repr(exc)[:300]},
                                          "replay": {"fn": "harness.checks.c08:w_clients", "arg": {"cases": [case]}}})
                continue
            finally:
                os.chdir(cwd)
            res["scenarios"] += 1
            new_lib = libpath.read_text(encoding="utf-8")
            if new_lib != case["lib"]:
                res["nontrivial"].append(env.digest(case["lib"] + case["client"]))
            after = _run_client(root, str(clientpath.relative_to(root)))
            have = set()
            try:
                have = c07.bound(new_lib)
            except (SyntaxError, ValueError):
                pass
            lost = [nm for nm in case["used"] if nm not in have and not any(h.endswith("." + nm) for h in have)]
            if after[0] != 0 or after[1] != before[1] or lost:
                res["violations"].append({
                    "kind": "client_behaves_differently" if (after[0] != 0 or after[1] != before[1]) else "preserved_name_lost", "rule": "main.format_files", "input": case["lib"],
                    "detail": {"client": case["client"], "names_used_by_client": sorted(case["used"]), "names_lost": lost, "before_stdout": before[1][-300:], "after_stdout": after[1][-300:],
                               "after_rc": after[0], "after_stderr": after[2], "library_after": new_lib[-1500:], "layout": [case["lib_dir"], case["client_dir"]], "cli": bool(case.get("cli")),
                               "safe": case.get("safe", False), "max_passes": case.get("max_passes", 5)},
                    "replay": {"fn": "harness.checks.c08:w_clients", "arg": {"cases": [case]}}})
            elif len(res["samples"]) < 1 and new_lib != case["lib"]:
                res["samples"].append({"client": case["client"], "stdout": before[1], "library_changed": True, "layout": [case["lib_dir"], case["client_dir"]]})
            shutil.rmtree(root, ignore_errors=True)
    finally:
        shutil.rmtree(base, ignore_errors=True)
    return res


# --------------------------------------------------------------------------------- parent side
def main() -> int:
    from .. import pool

    v = verdict.Verdict(PROP)
    thorough = env.tier() == "thorough"
    sub_cases, client_cases = [], []
    for i in range(12 if thorough else 3):
        r = env.rng(PROP, "lib", i)
        lib, top, members, n = make_library(r)
        pool_names = top[:4] + [top[7]] + members[top[7]][:1] if not thorough else top[:5] + [top[7]]
        # exhaustive over a 6-name universe, plus random subsets of the full universe
        universe = r.sample(top, 4) + [top[7]] + r.sample(members[top[7]], 1)
        subsets = [list(s) for k in range(len(universe) + 1) for s in itertools.combinations(universe, k)]
        full = top + members[top[7]]
        subsets += [r.sample(full, r.randint(1, len(full))) for _ in range(40 if thorough else 10)]
        for j in range(0, len(subsets), 8):
            sub_cases.append({"lib": lib, "members": members, "subsets": subsets[j:j + 8], "safe": False})
    layouts = [("", ""), ("pkg", ""), ("", "app"), ("pkg", "app")]
    for i in range(240 if thorough else 56):
        r = env.rng(PROP, "client", i)
        lib, top, members, n = make_library(r)
        lib_dir, client_dir = layouts[i % 4]
        modname = ("pkg.lib_mod" if lib_dir else "lib_mod")
        client, used = make_client(r, modname, n)
        client_cases.append({"lib": lib, "client": client, "used": sorted(used), "lib_dir": lib_dir, "client_dir": client_dir, "cli": i % 7 == 0, "safe": i % 5 == 0,
                             "max_passes": 1 if i % 3 == 0 else 5})
    tot_s, tot_c = {}, {}
    with pool.Pool() as p:
        verdict.run_witnesses(v, p)
        reps = p.map("harness.checks.c08:w_subsets", [{"cases": [c]} for c in sub_cases], cpu_s=1500)
        verdict.pool_failures(v, reps, "C08 subsets")
        for rep in reps:
            if rep.get("status") == "ok":
                c07._merge(tot_s, rep["value"])
        reps = p.map("harness.checks.c08:w_clients", [{"cases": client_cases[i:i + 2]} for i in range(0, len(client_cases), 2)], cpu_s=1500)
        verdict.pool_failures(v, reps, "C08 clients")
        for rep in reps:
            if rep.get("status") == "ok":
                c07._merge(tot_c, rep["value"])
    v.extend(tot_s.get("violations", []))
    v.extend(tot_c.get("violations", []))
    if tot_s.get("names_checked", 0) == 0:
        v.inconclusive_because("no preserved name was checked")
    if tot_c.get("scenarios", 0) == 0:
        v.inconclusive_because("no client scenario ran")
    cov = {
        "evaluations": tot_s.get("calls", 0) + tot_c.get("scenarios", 0),
        "distinct_nontrivial": len(set(tot_s.get("nontrivial", []))) + len(set(tot_c.get("nontrivial", []))),
        "rule": "(a) a case = format_code(library, preserve=P) for one subset P; (b) a case = one (library, client, folder layout, entry point) scenario executed before and "
                "after formatting; non-trivial = the library text was changed; distinct by digest",
        "samples": (tot_s.get("samples", [])[:1] + tot_c.get("samples", [])[:1]) or [{"note": "none"}],
        "subsets": {"libraries": 12 if thorough else 3, "subset_universe": 6, "exhaustive_over_universe": True, "format_code_calls": tot_s.get("calls"),
                    "preserved_names_checked": tot_s.get("names_checked"), "kept": tot_s.get("kept")},
        "clients": {k: tot_c.get(k) for k in ("scenarios", "cli_runs", "client_not_runnable")},
    }
    return v.finish(cov, assumptions=["a preserved member name is required to survive only when its class is preserved too (the statement leaves the other case open)",
                                      "clients are executed in a subprocess with the scenario root on PYTHONPATH"])


def replay(rec) -> int:
    return verdict.generic_replay(PROP, rec)
