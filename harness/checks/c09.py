"""C09 - repeated formatting converges and never oscillates.

Oracle: direct inspection of x0 = x, x_{i+1} = format_code(x_i) for seven texts: x5 must equal x6 and no text may be
revisited after it was left. The inner fixpoint loop is observed through H-rule (rounds of _multi_run_fixes per call).
"""
from __future__ import annotations

from .. import env, verdict
from . import c04

PROP = "C09"
def _many_sites(count, doc_lines=0):
    """A module with many sites of a rule that handles one site per pass (implicit if / else swap), optionally below a long module doc-string: the pass budget
    of one application must not depend on how long the file is."""
    doc = ""
    if doc_lines:
        doc = '"""Module with a long description.\n\n' + "".join(f"Line {i:04d} of the description of this module, which says nothing in particular.\n" for i in range(doc_lines)) + '"""\n'
    return doc + "".join(f"\n\ndef f{i}(x):\n    if x > {i}:\n        x += 1\n        x *= {i + 2}\n        print(x)\n        return x - {i}\n    return {i}\n" for i in range(count)) + "\n\nprint(" + ", ".join(f"f{i}({i + 1})" for i in range(count)) + ")\n"


def _branch_pairs():
    """Functions whose if has two branches that both end in a return, in every combination of: number of statements, nested ifs, statements after the return
    (unreachable, kept inside an if), a call that is too long for one line. Whichever orientation the tool prefers, it must prefer it in both directions."""
    long_call = "print(combine(first_argument_name, second_argument_name, third_argument_name, fourth_argument_name, 3))"
    shapes = {
        "short": ["return {k}"],
        "four": ["print({k})", "print({k} + 1)", "print({k} + 2)", "return {k}"],
        "four_long": ["print({k})", "print({k} + 1)", long_call, "return {k}"],
        "tail": ["return {k}", "if y > 1:", "    print({k} + 4)"],
        "tail_long": ["return {k}", "if y > 1:", "    print({k} + 4)", "    print({k} + 5)", "    " + long_call],
        "nested": ["if y > 2:", "    print({k})", "    if y > 3:", "        print({k} + 1)", "return {k}"],
        "nested_tail": ["if y > 2:", "    print({k})", "return {k}", "if y > 3:", "    print({k} + 1)", "if y > 4:", "    print({k} + 2)"],
    }
    out = []
    for a in shapes:
        for b in shapes:
            body = ["        " + l.format(k=1) for l in shapes[a]]
            rest = ["    " + l.format(k=2) for l in shapes[b]]
            nested_rest = ["        " + l.format(k=2) for l in shapes[b]]
            head = "def f(x, y, first_argument_name, second_argument_name, third_argument_name, fourth_argument_name):\n"
            use = "\n\nprint(f(1, 2, 'a', 'b', 'c', 'd'))\n"  # (without safe mode an unused function is simply deleted)
            out.append(head + "    if x:\n" + "\n".join(body) + "\n" + "\n".join(rest) + "\n" + use)
            out.append(head + "    if y:\n        if x:\n" + "\n".join("    " + l for l in body) + "\n" + "\n".join(nested_rest) + "\n    return 3\n" + use)
    return out


BRANCH_PAIRS = _branch_pairs()
def _statements_near_the_line_limit(depth, limit):
    """Call statements nested `depth` blocks deep whose length (indentation included) lies just below and just above `limit`, and just below and above
    limit - indentation: whether a statement is laid out on one line or several must not depend on whether it is laid out alone or inside its parent."""
    lines = ["def run(a, b, c, d):"]
    for k in range(depth):
        lines.append("    " * (k + 1) + f"if a > {k}:")
    pad = "    " * (depth + 1)
    for total in sorted({limit - 3, limit - 1, limit, limit + 1, limit + 4, limit - len(pad) - 1, limit - len(pad) + 2, 58, 60, 61}):
        name_len = total - len(pad) - len(" = combine(a, b, c, d)")
        if name_len >= 3:
            lines.append(pad + "v" + "x" * (name_len - 1) + " = combine(a, b, c, d)")
    lines.append(pad + "print(a, b)")
    return "\n".join(lines) + "\n    return None\n\n\ndef combine(*args):\n    return args\n\n\nrun(1, 2, 3, 4)\n"


HEAVY = [_many_sites(140)]  # more sites than 5 applications x 25 passes of a rule that handles one site per pass

NEAR_LIMIT = [(_statements_near_the_line_limit(d, limit), limit) for d, limit in ((1, 60), (2, 60), (5, 79), (8, 79), (11, 100), (12, 100), (12, 60), (3, 120))]

def _assignment_chain(n):
    """a0 = g(); a1 = a0; ...; return a<n-1>: a rule that removes one link at a time needs n iterations."""
    return "def g():\n    return 1\n\n\ndef f():\n    a0 = g()\n" + "".join(f"    a{i} = a{i - 1}\n" for i in range(1, n)) + f"    return a{n - 1}\n\n\nprint(f())\n"


ANTAGONISTS = [
    _assignment_chain(30), _assignment_chain(80),
    _many_sites(14, 270),
    _many_sites(24),
    # a multi-line module docstring and a name whose import is guessed: the import must not be added again on every application
    '"""Module\n\ndocstring of several lines.\n"""\nprint(json.dumps(1), os.sep)\n',
    "#!/usr/bin/env python\n# comment\n\'\'\'Doc\nstring\'\'\'\nfrom __future__ import annotations\nprint(Path('.'), math.pi)\n",
    # branches that are single, very long returns: the line-length stage lays them out over several lines (heuristics must not depend on the layout)
    "import os\n\n\ndef describe(path, verbose):\n    if os.path.isdir(path):\n        return \"directory {} containing {} entries, last modified {} and owned by user id {} group {}\".format(path, len(os.listdir(path)), os.path.getmtime(path), os.stat(path).st_uid, os.stat(path).st_gid, os.path.getatime(path))\n    return \"regular file {} of {} bytes, last modified {} and owned by user id {} in verbose={}\".format(path, os.path.getsize(path), os.path.getmtime(path), os.stat(path).st_uid, os.stat(path).st_gid, verbose)\n\n\nprint(describe(\".\", True))\n",
    "import os\n\n\ndef first_big(paths, threshold, default_directory_name, default_regular_file_name):\n    for path in paths:\n        if os.path.isdir(path):\n            return os.path.join(default_directory_name, os.path.basename(path), str(len(os.listdir(path))), str(os.path.getmtime(path)), \"directory\")\n        if os.path.getsize(path) > threshold:\n            return os.path.join(default_regular_file_name, os.path.basename(path), str(os.path.getsize(path)), str(os.path.getmtime(path)), \"file\")\n    return None\n\n\nprint(first_big([\".\"], 10, \"d\", \"f\"))\n",
    # loops over the keys of a dictionary that is written through the key, with headers that ast.unparse and black spell differently
    "import sys\n\n\ndef clear_level(weights, level):\n    for key in weights[2 ** level].keys():\n        weights[2 ** level][key] = 0.0\n    return weights\n\n\nprint(clear_level({1: {'a': 1.5}, 2: {'b': float(len(sys.argv))}}, 1))\n",
    "import sys\n\n\ndef reset(grid):\n    for row, column in grid.keys():\n        grid[row, column] = 0\n    return grid\n\n\nprint(reset({(1, 2): 3, (4, 5): int(sys.argv[0] == '')}))\n",
    "def square_level(weights, level):\n    for key in weights[2 ** level].keys():\n        weights[2 ** level][key] = weights[2 ** level][key] ** 2\n    return weights\n\n\nprint(square_level({1: {'a': 1.5}}, 0))\n",
    "def f(x):\n    if x:\n        return 1\n    else:\n        y = 2\n        z = y + 1\n        print(z)\n        return z\n\n\nprint(f(0))\n",
    "def f(x):\n    if not x:\n        pass\n    else:\n        print(1)\n    if x:\n        pass\n    else:\n        print(2)\n\n\nf(1)\n",
    "for i in range(3):\n    if i:\n        print(i)\n        print(i + 1)\n        print(i + 2)\n    else:\n        continue\n",
    "x = list()\nx.append(1)\nx.append(2)\ny = [i for i in x]\nz = list([j for j in y])\nprint(x, y, z)\n",
    "def f(a):\n    if a == 1:\n        r = 'one'\n    elif a == 2:\n        r = 'two'\n    else:\n        r = 'many'\n    return r\n\n\nprint(f(1), f(2), f(3))\n",
    "import os\n\n\n\n\n\ndef f():\n\n\n\n    return os.sep\n\n\n\n\n\n\nprint(f())\n\n\n\n",
    "x = {1: 2}\nx[3] = 4\nx.update({5: 6})\nfor k in x.keys():\n    print(k, x[k])\nfor k, v in x.items():\n    print(k)\n",
    "def f(v):\n    out = []\n    for i in v:\n        if i > 1:\n            if i < 5:\n                out.append(i)\n    return out\n\n\nprint(f([1, 2, 3, 7]))\n",
    "a = 1\nif a > 0 and a > 1 or not a <= 3:\n    print('x')\nelif not (a < 0 or a > 5):\n    print('y')\nelse:\n    print('z')\n",
    "class A:\n    def f(self):\n        return 1\n\n    @staticmethod\n    def g():\n        return 2\n\n    def h(self):\n        return self.g() + A.g()\n\n\nprint(A().f(), A().h())\n",
    "def f(x):\n    y = x if x else None\n    if y is None:\n        return False\n    else:\n        return True\n\n\nprint(f(0), f(1))\n",
    "s = 0\nfor i in range(10):\n    s += i\nt = sum([i for i in range(10)])\nu = sum(range(10))\nprint(s, t, u)\n",
    "import os, sys\nfrom os import path\nimport sys\nfrom os import path, sep\nprint(os, sys, path, sep)\n",
    "def f(seq):\n    result = False\n    for x in seq:\n        if x:\n            result = True\n            break\n    return result\n\n\nprint(f([0, 1]))\n",
    "very_long_name_number_one = 1\nresult = very_long_name_number_one + very_long_name_number_one * very_long_name_number_one - very_long_name_number_one / very_long_name_number_one\nprint(result)\n",
]


# --------------------------------------------------------------------------------- worker side
def w_converge(arg):
    from .. import hooks, pipeline

    m = hooks.mods()
    hooks.install_rule_hooks()
    R = hooks.REC
    res = {"cases": 0, "applications": 0, "violations": [], "nontrivial": [], "samples": [], "fixed_at": {}, "crashed": 0, "max_inner_rounds": 0, "inner_budget_exhausted": 0}
    for case in arg["cases"]:
        text = case["text"]
        opts = dict(case.get("options") or {})
        if "preserve" in opts:
            opts["preserve"] = frozenset(opts["preserve"])
        if not pipeline.valid_fragment(text):
            continue
        seq = [text]
        crashed = False
        for i in range(6):
            R.reset()
            try:
                nxt = m["main"].format_code(seq[-1], **opts)
            except Exception:
                crashed = True
                break
            res["applications"] += 1
            rounds = sum(1 for s in R.steps if s["depth"] == 0 and s["rule"] == "fixes.delete_commented_code")
            res["max_inner_rounds"] = max(res["max_inner_rounds"], rounds)
            if rounds >= 25:
                res["inner_budget_exhausted"] += 1
            seq.append(nxt)
        if crashed:
            res["crashed"] += 1
            if len(seq) > 1:  # earlier applications went through: the sequence does not reach a fixed point, it ends in an exception
                res["violations"].append({"kind": "later_application_raises", "input": text, "detail": {"options": case.get("options"), "applications_before": len(seq) - 1, "last": seq[-1][-600:]},
                                          "replay": {"fn": "harness.checks.c09:w_converge", "arg": {"cases": [case]}}})
            continue
        res["cases"] += 1
        first_fixed = next((i for i in range(len(seq) - 1) if seq[i] == seq[i + 1]), None)
        res["fixed_at"][str(first_fixed)] = res["fixed_at"].get(str(first_fixed), 0) + 1
        if seq[1] != seq[0]:
            res["nontrivial"].append(env.digest(text + repr(sorted(case.get("options", {}).items()))))
        replay = {"fn": "harness.checks.c09:w_converge", "arg": {"cases": [case]}}
        if seq[5] != seq[6]:
            res["violations"].append({"kind": "no_fixed_point_within_five_applications", "input": text,
                                      "detail": {"options": case.get("options"), "x5": seq[5][-600:], "x6": seq[6][-600:], "lengths": [len(s) for s in seq]}, "replay": replay})
        for i in range(len(seq)):
            for j in range(i + 2, len(seq)):
                if seq[j] == seq[i] and any(seq[k] != seq[i] for k in range(i + 1, j)):
                    res["violations"].append({"kind": "text_revisited_after_leaving_it", "input": text,
                                              "detail": {"options": case.get("options"), "i": i, "j": j, "x_i": seq[i][-400:], "x_between": seq[i + 1][-400:]}, "replay": replay})
                    break
            else:
                continue
            break
        if len(res["samples"]) < 1 and first_fixed and first_fixed >= 2 and len(text) < 500:
            res["samples"].append({"input": text, "first_fixed_index": first_fixed, "x1": seq[1], "x2": seq[2]})
    return res


# --------------------------------------------------------------------------------- parent side
def main() -> int:
    from .. import pool
    from ..gen import corpus, hostile

    v = verdict.Verdict(PROP)
    thorough = env.tier() == "thorough"
    r = env.rng(PROP, "main")
    cases = []
    opts = c04.OPTION_VECTORS
    for i, t in enumerate(ANTAGONISTS):
        for o in (opts if thorough else [opts[i % len(opts)], {}]):
            cases.append({"id": f"antagonist{i}", "text": t, "options": o})
    for i, t in enumerate(BRANCH_PAIRS):
        for o in ([{"safe": True}, {}] if thorough else [[{"safe": True}, {}][(i // 2) % 2]]):
            cases.append({"id": f"branch_pair{i}", "text": t, "options": o})
    for i, t in enumerate(HEAVY):
        cases.append({"id": f"heavy{i}", "text": t, "options": {"safe": True}})
    for i, (t, limit) in enumerate(NEAR_LIMIT):
        for o in ([{"max_line_length": limit}, {"max_line_length": 60}, {"max_line_length": 79}, {}] if thorough else [{"max_line_length": limit}, {"max_line_length": 60}]):
            cases.append({"id": f"near_limit{i}", "text": t, "options": o})
    for k in range(120 if thorough else 30):
        a, b, c = r.sample(ANTAGONISTS, 3)
        cases.append({"id": f"mix{k}", "text": a + "\n\n" + b + "\n\n" + c, "options": r.choice(opts)})
    ex = corpus.repo_examples()
    for o, t in (ex if thorough else r.sample(ex, 330)):
        cases.append({"id": f"example:{o}", "text": t, "options": r.choice(opts)})
    names = sorted(hostile.CONSTRUCTS)
    for i, n in enumerate(names):
        for pos in (["alone", "nested_def", "indented_fragment", "last_no_newline"] if thorough else [["alone", "nested_def", "indented_fragment"][i % 3]]):
            cases.append({"id": f"zoo:{n}:{pos}", "text": hostile.place(hostile.CONSTRUCTS[n], pos), "options": opts[i % len(opts)]})
    for o, t in corpus.stdlib_files(12000 if thorough else 5000, limit=80 if thorough else 14):
        cases.append({"id": f"stdlib:{o}", "text": t, "options": r.choice(opts[:2])})
    cases.sort(key=lambda c: -len(c["text"]))
    tasks, cur = [], []
    for c in cases:
        cur.append(c)
        if len(cur) >= (1 if len(c["text"]) > 2500 else 4):
            tasks.append({"cases": cur})
            cur = []
    if cur:
        tasks.append({"cases": cur})
    tot = {}
    with pool.Pool() as p:
        verdict.run_witnesses(v, p)
        reps = p.map("harness.checks.c09:w_converge", tasks, cpu_s=2400)
        verdict.pool_failures(v, reps, "C09 sequences")
        for rep in reps:
            if rep.get("status") == "ok":
                _merge(tot, rep["value"])
    v.extend(tot.get("violations", []))
    if tot.get("cases", 0) == 0:
        v.inconclusive_because("no sequence was completed")
    cov = {
        "evaluations": tot.get("applications", 0),
        "distinct_nontrivial": len(set(tot.get("nontrivial", []))),
        "rule": "a case = one input under one option vector, formatted six times in a row; non-trivial = the first application changed the text; distinct by digest of (text, options)",
        "samples": tot.get("samples", [])[:2] or [{"note": "every sampled sequence was fixed after the first application"}],
        "sequences": tot.get("cases"), "crashed_sequences": tot.get("crashed"),
        "first_fixed_index_histogram": tot.get("fixed_at"),
        "inner_loop": {"max_rounds_of_multi_run_fixes": tot.get("max_inner_rounds"), "calls_that_exhausted_MAX_FILE_PASSES": tot.get("inner_budget_exhausted")},
    }
    return v.finish(cov, assumptions=["the module pass budget of the tool is five applications (MAX_MODULE_PASSES)"])


def _merge(total, part):
    for k, val in part.items():
        if isinstance(val, bool):
            continue
        if k == "max_inner_rounds":
            total[k] = max(total.get(k, 0), val)
        elif isinstance(val, int):
            total[k] = total.get(k, 0) + val
        elif isinstance(val, list):
            total.setdefault(k, []).extend(val)
        elif isinstance(val, dict):
            d = total.setdefault(k, {})
            for kk, vv in val.items():
                d[kk] = d.get(kk, 0) + vv


def replay(rec) -> int:
    return verdict.generic_replay(PROP, rec)
