"""C10 - rewrites are scheduled transactionally and never overlap.

Workloads: (a) synthetic marker rules through processing.fix / processing.chain (random and a
bounded exhaustive configuration space, with fault injection); (b) every scheduling pass of the
real rules during format_code over the repository examples. Oracle: ref/sched_model.check_pass on
H-sched records + reference splice of the scheduled rewrites.
"""
from __future__ import annotations

import ast
import itertools
import random

from .. import env, verdict

PROP = "C10"

BASE_SOURCES = [
    "x0 = f0(a0 + b0, c0)\ny0 = d0\n",
    "def g1(p1, q1):\n    r1 = p1 * (q1 + s1)\n    return h1(r1, t1)\nz1 = u1[v1]\n",
    "if a2:\n    b2 = c2(d2)\n    e2 = f2\nelse:\n    g2 = h2 - i2\nj2 = k2\n",
    "for a3 in b3(c3):\n    d3 = e3 + f3 * g3\n    h3(i3, j3)\nk3 = l3\nm3 = n3(o3)\n",
    "class A4:\n    b4 = c4\n\n    def d4(self, e4):\n        return f4(e4)[g4]\nh4 = i4\n",
]


# ------------------------------------------------------------------------------- worker side
def _targets(source):
    """Candidate targets: positioned expression and statement nodes with their spans."""
    tree = ast.parse(source)
    out = []
    for node in ast.walk(tree):
        if isinstance(node, ast.stmt) or (isinstance(node, ast.expr) and not isinstance(getattr(node, "ctx", None), (ast.Store, ast.Del))):
            if isinstance(node, ast.expr) and isinstance(node, ast.Name) and node.id == "self":
                continue
            seg = ast.get_source_segment(source, node)
            if seg is None:
                continue
            out.append(node)
    return tree, out


def _span(source, node):
    lines = source.splitlines(keepends=True)
    starts = [0]
    for ln in lines:
        starts.append(starts[-1] + len(ln))
    return (starts[node.lineno - 1] + node.col_offset, starts[node.end_lineno - 1] + node.end_col_offset)


def build_case(spec):
    """spec: {"source", "rewrites": [{"target": idx, "form": ..., "marker": n, "tx": int|None, "group": g, "bad": bool}], "order": [...]}

    Returns (rule functions per group, description of intended rewrites).
    """
    from .. import hooks

    core = hooks.mods()["core"]
    source = spec["source"]
    tree, nodes = _targets(source)
    planned = []
    per_group = {}
    for pos in spec["order"]:
        rw = spec["rewrites"][pos]
        node = nodes[rw["target"] % len(nodes)]
        is_stmt = isinstance(node, ast.stmt)
        marker = f"M{rw['marker']}"
        form = rw["form"]
        span = _span(source, node)
        if form == "insert":
            # insertion before a statement: (None, new statement carrying the position)
            if not is_stmt:
                form = "replace_str"
            else:
                new = ast.parse(f"{marker}()").body[0]
                ast.copy_location(new, node)
                new.lineno, new.col_offset = node.lineno, node.col_offset
                old = None
                rng = (span[0], span[0])
                text = None
        if form == "delete":
            if not is_stmt:
                form = "replace_str"
            else:
                old, new, rng, text = node, None, span, ""
        if form == "replace_str":
            text = (f"{marker} = 1" if is_stmt else marker) + (" +" if rw.get("bad") else "")
            old, new, rng = node, text, span
        elif form == "replace_ast":
            if is_stmt:
                new = ast.parse(f"{marker} = 1").body[0]
            else:
                new = ast.Name(id=marker, ctx=ast.Load())
            old, rng, text = node, span, None
        elif form == "range_str":
            text = (f"{marker} = 1" if is_stmt else marker) + (" +" if rw.get("bad") else "")
            old, new, rng = core.Range(*span), text, span
        elif form == "range_insert":
            # text inserted at an offset (an empty range): a statement of its own before a statement, an operand before an expression
            indent = source[source.rfind("\n", 0, span[0]) + 1:span[0]]
            text = (f"{marker}()\n{indent}" if is_stmt and not indent.strip() else f"{marker} + " if not is_stmt else f"{marker}(); ") + ("(" if rw.get("bad") else "")
            old, new, rng = core.Range(span[0], span[0]), text, (span[0], span[0])
        elif form == "range_delete":
            if not is_stmt:
                text = marker
                old, new, rng = core.Range(*span), text, span
            else:
                old, new, rng, text = core.Range(*span), "", span, ""
        tup = (old, new) if rw.get("tx") is None else (old, new, rw["tx"])
        per_group.setdefault(rw["group"], []).append(tup)
        planned.append({"marker": marker, "form": form, "range": rng, "tx": rw.get("tx"), "group": rw["group"],
                        "stmt": is_stmt, "bad": bool(rw.get("bad"))})
    return per_group, planned


def w_synth(batch):
    """Run a batch of synthetic scheduling cases; returns counters, violations and a few samples."""
    from .. import hooks
    from ..ref import sched_model as sm

    m = hooks.mods()
    hooks.install_sched_hooks()
    proc = m["processing"]
    R = hooks.REC
    res = {"cases": 0, "passes": 0, "violations": [], "samples": [], "drops": {}, "rollbacks": 0,
           "model_agree": 0, "model_disagree": 0, "nontrivial": [], "spliced_ok": 0, "tx_total": 0, "passes_with_a_raising_rule": 0,
           "ignored_kept": 0}
    for spec in batch:
        R.reset()
        source = spec["source"]
        per_group, planned = build_case(spec)
        ngroups = spec["ngroups"]

        def make_rule(g):
            items = per_group.get(g, [])

            def rule(source):
                if source != ORIG:
                    return
                stop = (spec.get("raise_after") or {}).get(str(g))
                for n, item in enumerate(items):
                    if stop is not None and n == stop:
                        raise RuntimeError("synthetic rule gives up half-way")
                    yield item
                if stop is not None and stop >= len(items):
                    raise RuntimeError("synthetic rule gives up at the end")

            rule.__name__ = f"synthetic_rule_{g}"
            return rule

        ORIG = source
        rules = [make_rule(g) for g in range(ngroups)]
        try:
            if spec["api"] == "fix" and ngroups == 1:
                out = proc.fix(rules[0], max_iter=1)(source)
            else:
                out = proc.chain(rules, max_iter=2)(source)
            exc = None
        except Exception as e:
            out, exc = None, f"{type(e).__name__}: {e}"
        res["cases"] += 1
        first = next((p for p in R.passes if p.get("yielded")), None)
        if exc is not None:
            res["violations"].append({"kind": "scheduler_raised", "detail": exc, "replay": {"fn": "harness.checks.c10:w_synth", "arg": [spec]}})
            continue
        if first is None:
            continue
        res["passes"] += 1
        viol, info = sm.check_pass(first)
        for k, why in (info.get("drop_reasons") or {}).items():
            tag = "+".join(why) or "none"
            res["drops"][tag] = res["drops"].get(tag, 0) + 1
        res["tx_total"] += info.get("n_tx", 0)
        if info.get("rules_that_raised"):
            res["passes_with_a_raising_rule"] = res.get("passes_with_a_raising_rule", 0) + 1
        if info.get("model_agreement"):
            res["model_agree"] += 1
        else:
            res["model_disagree"] += 1
        if info.get("candidate_valid") is False:
            res["rollbacks"] += 1
        # reference splice of what was scheduled: the result must be that text (modulo whitespace) or the input
        sched = [(tuple(s["range"]), s["new"]) for s in first["scheduled"]]
        result = first["result"]
        if result is not None:
            if info.get("candidate_valid") is False:
                # rollback clause (4), judged by the model on the text the implementation itself produced. If the plain splice of the same schedule is a
                # valid program, it was not "the combined result of the pass" that did not parse: the implementation misplaced a rewrite while applying it
                ref = sm.splice(source, sched)
                if result == source and ref != source and sm.valid(ref) and sm.compiles(ref) and sm.compiles(source):
                    viol.append({"kind": "rolled_back_although_the_spliced_schedule_is_valid",
                                 "detail": {"expected": ref, "candidate_of_the_implementation": first["do"][-1]["out"] if first.get("do") else None, "scheduled": sched}})
            elif _squash(result) not in _reference_apply(source, sched):
                viol.append({"kind": "result_differs_from_spliced_schedule",
                             "detail": {"expected": sm.splice(source, sched), "result": result, "scheduled": sched}})
            else:
                res["spliced_ok"] += 1
            # ignored lines must survive verbatim
            for line in source.splitlines():
                if sm.IGNORE.search(line):
                    if line not in result.splitlines():
                        viol.append({"kind": "ignored_line_changed", "detail": {"line": line, "result": result}})
                    else:
                        res["ignored_kept"] += 1
            # chain result equals pass result (later passes yield nothing)
            if out != result:
                viol.append({"kind": "later_pass_changed_text", "detail": {"pass": result, "final": out}})
        for v in viol:
            v["replay"] = {"fn": "harness.checks.c10:w_synth", "arg": [spec]}
            v["input"] = source
            res["violations"].append(v)
        if info.get("n_tx", 0) >= 2:
            res["nontrivial"].append(env.digest(repr([(y["group"], y["tx"], tuple(y["range"]), y["new"]) for y in first["yielded"]]) + source))
        if len(res["samples"]) < 2 and info.get("dropped"):
            res["samples"].append({"source": source, "yielded": [{k: y[k] for k in ("group", "tx", "range", "new", "kind")} for y in first["yielded"]],
                                   "scheduled": first["scheduled"], "drop_reasons": {str(k): v for k, v in info["drop_reasons"].items()},
                                   "result": result})
    return res


def _in_yield_order(planned, spec):
    return planned


def _squash(text):
    return "".join(text.split())


def _reference_apply(source, sched):
    """All whitespace-squashed texts the specification allows for applying `sched`: ranges replaced back to
    front, where a deletion may leave `pass` behind (the documented empty-block repair) and a rewrite listed
    twice may be applied once or twice (the statement does not say)."""
    out = set()
    for items in (sorted(set(sched), key=lambda t: (t[0], t[1]), reverse=True),
                  sorted(sched, key=lambda t: (t[0], t[1]), reverse=True)):
        dels = [i for i, (_, new) in enumerate(items) if not new]
        for mask in itertools.product((False, True), repeat=min(len(dels), 6)):
            use_pass = {i for i, m in zip(dels, mask) if m}
            text = source
            for i, ((start, end), new) in enumerate(items):
                text = text[:start] + ("pass" if i in use_pass else new) + text[end:]
            out.add(_squash(text))
    return out


# rewrites given as line ranges whose new text differs from the old one in leading whitespace only (re-indentation), alone and together with a header that is
# inserted or deleted in the same transaction: the squashed comparison above cannot see whether they were applied, the syntax tree can
LAYOUT_SCENARIOS = [
    ("dedent the body of a deleted else", "def f(x):\n    if x:\n        return 1\n    else:\n        y = 2\n        print(y)\n    return 3\n",
     [(4, 4, ""), (5, 6, "    y = 2\n    print(y)\n")]),
    ("indent statements under an inserted with header", "def g(lock, data):\n    lock.acquire()\n    data.append(1)\n    data.append(2)\n    return data\n",
     [(3, 3, "    with lock:\n        data.append(1)\n"), (4, 4, "        data.append(2)\n")]),
    ("re-indent continuation lines", "values = (\n    inner(1),\n    inner(2),\n)\nprint(values)\n", [(2, 3, "        inner(1),\n        inner(2),\n")]),
    ("indent a statement into the block above", "for i in range(3):\n    a = i\nb = 2\nprint(a, b)\n", [(3, 3, "    b = 2\n")]),
]


def w_layout(arg):
    from .. import hooks

    m = hooks.mods()
    proc, core = m["processing"], m["core"]
    res = {"scenarios": 0, "applied_as_scheduled": 0, "violations": [], "nontrivial": []}
    for name, source, edits in LAYOUT_SCENARIOS:
        lines = source.splitlines(keepends=True)
        starts = [0]
        for ln in lines:
            starts.append(starts[-1] + len(ln))
        for tx in (7, None):
            if tx is None and len(edits) > 1:
                continue  # the edits only make sense together

            def rule(src, edits=edits, tx=tx, source=source):
                if src != source:
                    return  # later passes see the rewritten text: nothing more to do
                for first, last, new in edits:
                    rng = core.Range(starts[first - 1], starts[last])
                    yield (rng, new, tx) if tx is not None else (rng, new)

            rule.__name__ = "layout_rule"
            try:
                out = proc.fix(rule)(source)
            except Exception as exc:
                res["violations"].append({"kind": "scheduler_raised", "input": source, "detail": {"scenario": name, "exc": repr(exc)}, "replay": {"fn": "harness.checks.c10:w_layout", "arg": None}})
                continue
            res["scenarios"] += 1
            expected = source
            for first, last, new in sorted(edits, reverse=True):
                expected = expected[: starts[first - 1]] + new + expected[starts[last]:]
            res["nontrivial"].append(env.digest(name + repr(tx)))
            try:
                same = ast.dump(ast.parse(out)) == ast.dump(ast.parse(expected))
            except SyntaxError:
                same = False
            if same:
                res["applied_as_scheduled"] += 1
            else:
                res["violations"].append({"kind": "scheduled_reindentation_not_applied", "input": source,
                                          "detail": {"scenario": name, "transaction": tx, "expected": expected, "result": out, "result_is_input": out == source},
                                          "replay": {"fn": "harness.checks.c10:w_layout", "arg": None}})
    return res


def w_real(batch):
    """format_code on real inputs with H-sched on; every pass of every real rule is checked."""
    from .. import hooks
    from ..ref import sched_model as sm

    m = hooks.mods()
    hooks.install_sched_hooks(keep_text=True)
    hooks.install_rule_hooks()
    R = hooks.REC
    res = {"cases": 0, "passes": 0, "passes_with_tx": 0, "violations": [], "drops": {}, "rollbacks": 0,
           "model_agree": 0, "model_disagree": 0, "crashed": 0, "multi_tx": 0, "samples": [], "nontrivial": []}
    for item in batch:
        R.reset()
        try:
            m["main"].format_code(item["text"], safe=item.get("safe", False))
        except Exception:
            res["crashed"] += 1
        res["cases"] += 1
        for p in R.passes:
            res["passes"] += 1
            if not p.get("yielded"):
                if p.get("result") is not None and p.get("scheduled") == [] and p["result"] != p["source"]:
                    res["violations"].append({"kind": "changed_without_rewrites", "rule": "/".join(p["groups"]), "input": p["source"],
                                              "replay": {"fn": "harness.checks.c10:w_real", "arg": [item]}})
                continue
            res["passes_with_tx"] += 1
            viol, info = sm.check_pass(p)
            if info.get("n_tx", 0) >= 2:
                res["multi_tx"] += 1
                res["nontrivial"].append(env.digest(p["source"] + "/".join(p["groups"])))
            for k, why in (info.get("drop_reasons") or {}).items():
                tag = "+".join(why) or "none"
                res["drops"][tag] = res["drops"].get(tag, 0) + 1
                if len(res["samples"]) < 1:
                    res["samples"].append({"rules": p["groups"], "origin": item.get("origin"), "dropped_tx": str(k), "why": why,
                                           "yielded": [{kk: y.get(kk) for kk in ("group", "tx", "range", "new")} for y in p["yielded"]][:8]})
            if info.get("candidate_valid") is False:
                res["rollbacks"] += 1
            res["model_agree" if info.get("model_agreement") else "model_disagree"] += 1
            for v in viol:
                v["rule"] = "/".join(p["groups"])
                v["input"] = p["source"]
                v["replay"] = {"fn": "harness.checks.c10:w_real", "arg": [item]}
                res["violations"].append(v)
    return res


# ------------------------------------------------------------------------------- parent side
FORMS = ["replace_str", "replace_ast", "range_str", "delete", "insert", "range_insert", "range_delete"]


def random_specs(n, stream):
    specs = []
    for i in range(n):
        r = env.rng(PROP, stream, i)
        source = r.choice(BASE_SOURCES)
        if r.random() < 0.35:
            lines = source.splitlines(keepends=True)
            k = r.randrange(len(lines))
            lines[k] = lines[k].rstrip("\n") + "  # pyrefact: ignore\n"
            source = "".join(lines)
        nrew = r.randint(1, 6)
        ngroups = r.randint(1, 3)
        ntx = r.randint(1, 3)
        rewrites = []
        ntargets = 40
        pool = [r.randrange(ntargets) for _ in range(r.randint(1, 4))]
        for j in range(nrew):
            target = r.choice(pool) if r.random() < 0.6 else r.randrange(ntargets)
            rewrites.append({
                "target": target,
                "form": r.choices(FORMS, weights=[4, 3, 3, 2, 2, 2, 1])[0],
                "marker": j if r.random() < 0.85 else r.randrange(nrew),
                "tx": r.choice([None, None] + list(range(1, ntx + 1))),
                "group": r.randrange(ngroups),
                "bad": r.random() < 0.06,
            })
        order = list(range(nrew))
        r.shuffle(order)
        spec = {"source": source, "rewrites": rewrites, "order": order, "ngroups": ngroups, "api": r.choice(["fix", "chain"])}
        if r.random() < 0.15:  # a rule raises after it has yielded some of its rewrites (or all of them)
            g = r.randrange(ngroups)
            spec["raise_after"] = {str(g): r.randint(0, sum(1 for rw in rewrites if rw["group"] == g))}
        specs.append(spec)
    return specs


def exhaustive_specs(limit=None, stride=1):
    """4 target slots (outer call, inner operand expr, sibling argument, disjoint statement value) x all
    subsets of <= 3 (4 in thorough) rewrites x transaction assignments x <= 2 groups x all yield orders x {valid, invalid}."""
    source = BASE_SOURCES[0]
    tree, nodes = _targets(source)
    want = {"outer": "f0(a0 + b0, c0)", "inner": "a0 + b0", "leaf": "a0", "sibling": "c0", "disjoint": "d0"}
    slots = {}
    for name, seg in want.items():
        for i, nd in enumerate(nodes):
            if ast.get_source_segment(source, nd) == seg and isinstance(nd, ast.expr):
                slots[name] = i
                break
    slot_items = [("outer", 0), ("inner", 1), ("inner", 2), ("leaf", 3), ("sibling", 4), ("disjoint", 5)]
    specs = []
    count = 0
    maxk = 4 if env.tier() == "thorough" else 3
    for k in range(1, maxk + 1):
        for subset in itertools.combinations(slot_items, k):
            for txs in itertools.product([None, 1, 2], repeat=k):
                for groups in itertools.product([0, 1], repeat=k):
                    if groups[0] != 0 and 0 not in groups:
                        continue
                    for order in itertools.permutations(range(k)):
                        for bad in (None,) + tuple(range(k)) if k <= 2 else (None, 0):
                            count += 1
                            if count % stride:
                                continue
                            rewrites = [{"target": slots[s], "form": "replace_str" if (i + j) % 2 else "range_str", "marker": mk,
                                         "tx": tx, "group": g, "bad": bad == j}
                                        for j, ((s, mk), tx, g, i) in enumerate(zip(subset, txs, groups, range(k)))]
                            specs.append({"source": source, "rewrites": rewrites, "order": list(order),
                                          "ngroups": max(groups) + 1, "api": "chain"})
                            if limit and len(specs) >= limit:
                                return specs, count
    return specs, count


def _merge(total, part):
    for k, v in part.items():
        if isinstance(v, int):
            total[k] = total.get(k, 0) + v
        elif isinstance(v, dict):
            d = total.setdefault(k, {})
            for kk, vv in v.items():
                d[kk] = d.get(kk, 0) + vv
        elif isinstance(v, list):
            total.setdefault(k, []).extend(v)


def main() -> int:
    from .. import pool
    from ..gen import corpus

    v = verdict.Verdict(PROP, level="exploration")
    thorough = env.tier() == "thorough"
    n_random = 40000 if thorough else 4000
    specs = random_specs(n_random, "random")
    ex_specs, ex_total = exhaustive_specs(stride=1 if thorough else 7)
    examples = corpus.repo_examples()
    r = env.rng(PROP, "examples")
    if not thorough:
        examples = r.sample(examples, min(220, len(examples)))
    real = [{"origin": o, "text": t, "safe": bool(i % 5 == 0)} for i, (o, t) in enumerate(examples)]
    if thorough:
        real += [{"origin": o, "text": t} for o, t in corpus.stdlib_files(9000, limit=60)]

    def batches(items, size):
        return [items[i:i + size] for i in range(0, len(items), size)]

    with pool.Pool() as p:
        verdict.run_witnesses(v, p)
        rs = p.map("harness.checks.c10:w_synth", batches(specs, 250), cpu_s=600)
        re_ = p.map("harness.checks.c10:w_synth", batches(ex_specs, 400), cpu_s=900)
        rr = p.map("harness.checks.c10:w_real", batches(real, 4), cpu_s=900)
        rl = p.map("harness.checks.c10:w_layout", [None], cpu_s=300)
    verdict.pool_failures(v, rl, "C10 layout scenarios")
    lay = rl[0].get("value") if rl and rl[0].get("status") == "ok" else {}
    v.extend((lay or {}).get("violations", []))
    tot_s, tot_e, tot_r = {}, {}, {}
    for replies, tot in ((rs, tot_s), (re_, tot_e), (rr, tot_r)):
        verdict.pool_failures(v, replies, "C10 batch")
        for rep in replies:
            if rep.get("status") == "ok":
                _merge(tot, rep["value"])
    for tot in (tot_s, tot_e, tot_r):
        v.extend(tot.get("violations", []))
    nontrivial = set(tot_s.get("nontrivial", [])) | set(tot_e.get("nontrivial", [])) | set(tot_r.get("nontrivial", []))
    passes = tot_s.get("passes", 0) + tot_e.get("passes", 0) + tot_r.get("passes_with_tx", 0)
    if tot_r.get("passes_with_tx", 0) == 0:
        v.inconclusive_because("no real scheduling pass with rewrites was observed")
    if tot_s.get("passes", 0) == 0:
        v.inconclusive_because("no synthetic scheduling pass was observed")
    cov = {
        "evaluations": passes,
        "distinct_nontrivial": len(nontrivial),
        "rule": "a case = one scheduling pass observed by H-sched; non-trivial = the rules yielded >= 2 transactions; "
                "distinct by digest of (source, yielded rewrites). Synthetic passes use marker rewrites through "
                "processing.fix/chain; real passes come from format_code on repository examples.",
        "samples": (tot_s.get("samples", [])[:2] + tot_r.get("samples", [])[:2]) or [{"note": "no dropped transaction sampled"}],
        "synthetic_random": {k: tot_s.get(k) for k in ("cases", "passes", "drops", "rollbacks", "model_agree", "model_disagree", "spliced_ok", "tx_total", "ignored_kept", "passes_with_a_raising_rule")},
        "synthetic_enumerated": {k: tot_e.get(k) for k in ("cases", "passes", "drops", "rollbacks", "model_agree", "model_disagree", "spliced_ok", "tx_total")},
        "enumerated_space": {"configurations_total": ex_total, "configurations_run": len(ex_specs), "exhaustive_for_bound": len(ex_specs) == ex_total},
        "real_rules": {k: tot_r.get(k) for k in ("cases", "passes", "passes_with_tx", "multi_tx", "drops", "rollbacks", "model_agree", "model_disagree", "crashed")},
        "reindentation_scenarios": {k: (lay or {}).get(k) for k in ("scenarios", "applied_as_scheduled")},
        "exhaustive": False,
    }
    return v.finish(cov, assumptions=[
        "rewrite ranges are taken from core.get_charnos as the scheduler sees them (span correctness is C13)",
        "implicit (2-tuple) transactions are ordered by yield position before explicit numbers",
    ])


def replay(rec) -> int:
    return verdict.generic_replay(PROP, rec)
