"""C11 - layout stages never change program structure or string contents.

Monitor: AST equality at H-stage, i.e. on every call of a layout stage *inside real pipeline runs* and on direct calls;
the in-line expandtabs stage is bracketed by the format_code input and the first hooked stage; for the final
whitespace-diff minimisation the contract is tree(result) == tree(new). Doc-string whitespace is normalised away.
"""
from __future__ import annotations

import ast
import itertools
import re

from .. import env, verdict

PROP = "C11"
STAGES = ["rmspace.format_str", "fixes.fix_too_many_blank_lines", "fixes.fix_line_lengths", "fixes.fix_import_spacing",
          "formatting.format_with_black", "formatting.collapse_trailing_parentheses", "processing.minimize_whitespace_line_differences", "expandtabs"]

CONTENTS = {
    "tab": "a\tb",
    "tabs_lines": "col1\tcol2\n\tindented\ttext\n",
    "blank_run": "first\n\n\n\n\nsecond",
    "blank_run_ws": "first\n   \n\t\n \nsecond",
    "trailing_ws": "line one   \nline two\t\nend  ",
    "trailing_ws_only_last": "value   ",
    "long": "x" * 130,
    "long_words": " ".join(["word"] * 40),
    "hash": "not # a comment",
    "mixed": "a\tb   \n\n\n\nc #\td  \n",
    "indent_inside": "def f():\n        return 1\n    # odd\n",
    "plain": "plain",
    "backslash": "a\\tb \\\n c",
    "crlf_like": "a \\r\\n b",
    "leading_blank_lines": "\n\n\n\nafter blanks",
    "only_ws": "   \n   \n",
    "unicode_trailing": "nbsp\xa0\nideographic\u3000\nformfeed\x0c\nthin\u2009\nend\xa0",
    "usage_colon": "Usage:\n\n    prog FILE\n\nOptions:\n\n    -v  verbose\n",
    "colon_blank_code": "if x:\n\n    y = 1\n",
}
PREFIXES = ["", "r", "b", "f", "rb", "rf"]


def literal(prefix, quote, content):
    """Source text of a literal with the given raw content between the quotes (content is used verbatim)."""
    body = content
    if "b" in prefix:
        body = body.encode("ascii", "replace").decode("ascii")
    if "f" in prefix:
        body = body.replace("{", "{{").replace("}", "}}") + "{v}"
    if len(quote) == 1:
        if "\n" in body:
            return None
        if body.endswith("\\") or quote in body:
            return None
    elif quote in body or body.endswith(quote[0]):
        return None
    if "r" not in prefix and "\\" in body:
        pass
    return f"{prefix}{quote}{body}{quote}"


def torture_sources():
    out = []
    for (cname, content), prefix, quote in itertools.product(CONTENTS.items(), PREFIXES, ["'", '"', "'''", '"""']):
        lit = literal(prefix, quote, content)
        if lit is None:
            continue
        ctxs = {
            "assign": f"v = 1\nx = {lit}\nprint(x)\n",
            "call_arg": f"v = 1\nprint(len({lit}), 2)\n",
            "nested": f"v = 1\n\n\ndef f(v):\n    if v:\n        y = {lit}\n        return y\n    return None\n\n\nprint(f(1))\n",
            "concat": f"v = 1\nz = ('a' {lit}\n     {lit})\nprint(z)\n",
            "dict": f"v = 1\nd = {{{lit}: [{lit}, 1]}}\nprint(d)\n",
            "expr_stmt_not_doc": f"v = 1\nx = 0\n{lit}\nprint(x)\n",
            "long_call": f"v = 1\n\n\nclass K:\n    def m(self, v):\n        return some_function_name(argument_one, argument_two, {lit}, argument_four, argument_five_is_long)\n",
            "tab_indented": f"v = 1\nif v:\n\tw = {lit}\n\tprint(w)\n",
        }
        for ctx, text in ctxs.items():
            try:
                ast.parse(text)
            except (SyntaxError, ValueError):
                continue
            out.append((f"{cname}|{prefix or '-'}|{quote}|{ctx}", text))
    return out


def _many_literals(n, quote="\'\'\'"):
    """A module with n literals that the layout stages have to set aside (several lines, tabs, trailing blanks), printed at the end."""
    lines = []
    for i in range(n):
        body = ["first\tcolumn   ", "", "", "", "  second line %d\t" % i, "last"] if i % 3 == 0 else ["a\tb", "c   "] if i % 3 == 1 else ["only\ttabs\there"]
        if len(body) > 1 or quote in ("\'\'\'", '"""'):
            lines.append(f"s{i} = {quote if len(quote) == 3 else quote * 3}" + "\n".join(body) + f"{quote if len(quote) == 3 else quote * 3}")
        else:
            lines.append(f"s{i} = {quote}{body[0]}{quote}")
    lines.append("print(" + ", ".join(f"repr(s{i})" for i in range(n)) + ")")
    return "x = 1   \n" + "\n".join(lines) + "\n"


LAYOUT_ODDITIES = [
    # many literals in one module: 10, 11, 12, 25, 101 (placeholders with numbers that are prefixes of one another)
    _many_literals(10), _many_literals(11), _many_literals(12, '"""'), _many_literals(25), _many_literals(101), _many_literals(13, '"'),
    "x = 1   \ny = 2\t\n\n\n\n\n\nz = 3\n\n\n\n",
    "def f():\n\n\n\n    a = 1\n\n\n\n    return a\n\n\n\n\n\nprint(f())\n",
    "if True:\n\tx = 1\n\tif x:\n\t\ty = 2\nprint(x)\n",
    "import os\nimport sys\n\n\n\n\nfrom a import b\nx = 1\nimport re\n\ndef f(): pass\nimport json\n",
    "x = [1,\n     2,   \n\n     3]\n",
    "x = (1 +\n\n     2)\n",
    "class A:\n\n\n\n    '''doc   \n\n\n    more'''\n\n\n\n    x = 1\n",
    "x = 1; y = 2;   \nz = 3  # comment with trailing   \n",
    "def f(a,\n      b):   \n    return (a,\n            b)\n\n\n\n\n\n\n",
    "# comment\n\n\n\n\n# another\n\n\n\nx = 1\n",
    "x = 1 # c\t\ty\n\ty = 2\n" if False else "x = 1  # c\t\ty\n",
    "very_long_function_name(argument_number_one, argument_number_two)[index_expression_one:index_expression_two].attribute_access.method_call(keyword=value)\n",
    "assert some_condition_function(argument_one, argument_two) and another_condition(argument_three), 'a message that is quite long and goes on and on'\n",
    "result = first_operand_with_long_name + second_operand_with_long_name * third_operand_with_long_name - fourth_operand_with_long_name / fifth\n",
    "def f(x):\n    return x if x else some_default_value_function(x) if x is not None else another_default(x) or yet_another_fallback_value_that_is_long\n",
    "lambda_holder = lambda argument_one, argument_two, argument_three: argument_one + argument_two + argument_three + some_global_value_xyz\n",
    "with open('a') as f, open('b') as g, open('c') as h, open('d') as i, open('e') as j, open('f') as k, open('g') as l_:\n    pass\n",
    "x = {'key_one': 'value_one', 'key_two': 'value_two', 'key_three': 'value_three', 'key_four': 'value_four', 'key_five': 5}\n",
    "from some.very.long.module.path import (first_name, second_name, third_name, fourth_name, fifth_name, sixth_name, seventh)\n",
    "x = not  a\ny = a if  b  else   c\nz = a  [1]\nw = f  (1)\n",
    "print(  'a'  ,  'b'  )\nx = (  1,  )\ny = [  ]\n",
    "x = 1 if True else 2;\n",
    "if x:\n    pass\n\n\n\n\nelse:\n\n\n\n    pass\n",
    "try:\n    pass\n\n\n\nexcept E:\n\n\n    pass\n",
    "@decorator\n\n\n\ndef f():\n    pass\n",
    "x = 1\n\\\n\ny = 2\n",
    "x = \\\n    1\n",
    "def f():\n    x = 1 \\\n        + 2\n    return x\n",
]


class _Strip(ast.NodeTransformer):
    """Replace every string/bytes constant and f-string by a placeholder, collecting their values in order."""

    def __init__(self):
        self.values = []

    def visit_JoinedStr(self, node):
        # the literal text of an f-string: its constant parts, holes shown as {}
        self.values.append("".join(p.value if isinstance(p, ast.Constant) and isinstance(p.value, str) else "{" + ast.unparse(p) + "}" for p in node.values))
        return ast.copy_location(ast.Constant(value="<fstring>"), node)

    def visit_Constant(self, node):
        if isinstance(node.value, (str, bytes)):
            self.values.append(node.value)
            return ast.copy_location(ast.Constant(value="<str>"), node)
        return node


def differing_constants(a, b):
    """If two trees differ only in string/bytes/f-string literals: list of (before, after) values; else None."""
    import textwrap

    try:
        ta, tb = ast.parse(a), ast.parse(b)
    except (SyntaxError, ValueError):
        try:
            ta, tb = ast.parse(textwrap.dedent(a)), ast.parse(textwrap.dedent(b))
        except (SyntaxError, ValueError):
            return None
    sa, sb = _Strip(), _Strip()
    ta, tb = sa.visit(ta), sb.visit(tb)
    if ast.dump(ta) != ast.dump(tb) or len(sa.values) != len(sb.values):
        return None
    return [(x, y) for x, y in zip(sa.values, sb.values) if x != y or type(x) is not type(y)]


def features(value):
    if isinstance(value, bytes):
        value = value.decode("latin-1")
    return {"has_tab": "\t" in value, "has_blank_run": re.search(r"\n[ \t]*\n[ \t]*\n", value) is not None or value.startswith(("\n\n", "\n \n")) or re.search(r"\n[ \t]*\n", value) is not None,
            "has_trailing_ws_line": re.search(r"[ \t]+(\n|$)", value) is not None or re.search(r"\n[ \t]+\n", value) is not None, "multiline": "\n" in value,
            "ws_only_lines": re.search(r"(^|\n)[ \t]+(\n|$)", value) is not None}


def reference_stage(name, text):
    """What the stage did on the unchanged tree, written down independently: the listed findings are about *these* text operations reaching into literals.
    A stage that does anything else to a literal (other characters stripped, other blank lines removed) is not one of them."""
    if name == "rmspace.format_str":
        return re.sub(r"[ \t]+(?=\n|\Z)", "", text)  # blanks and tabs at the end of a physical line or of the text
    if name == "expandtabs":
        return text.expandtabs(4)
    if name == "fixes.fix_too_many_blank_lines":
        out = re.sub(r"(\n\s*){3,}\n", "\n" * 3, text)  # at most two blank lines anywhere
        out = re.sub(r"(\n\s*){2,}\Z", "\n", out)  # none at the end
        out = re.sub(r"(\n\s*){2,}(\n\s+)(?=[^\n\s])", r"\n\g<2>", out)  # at most one before an indented line
        return out
    return None


# --------------------------------------------------------------------------------- worker side
def judge_stage(name, before, after, res, origin, replay, extra=None):
    from .. import pipeline

    da = pipeline.norm_dump(before)
    if da is None:
        return
    res["stage_events"][name] = res["stage_events"].get(name, 0) + 1
    if after == before:
        return
    res["stage_changed"][name] = res["stage_changed"].get(name, 0) + 1
    res["nontrivial"].append(env.digest(name + before))
    db = pipeline.norm_dump(after)
    if da == db:
        if len(res["samples"]) < 2 and len(before) < 200 and name not in [s["stage"] for s in res["samples"]]:
            res["samples"].append({"stage": name, "in": before, "out": after})
        return
    consts = differing_constants(before, after) if db is not None else None
    detail = {"stage": name, "origin": origin, "out": after[-1200:], "result_parses": db is not None}
    if consts is not None:
        detail["string_constants_only"] = True
        detail["constants"] = [{"before": repr(x)[:120], "after": repr(y)[:120], **features(x)} for x, y in consts[:4]]
    else:
        detail["string_constants_only"] = False
    detail["explained_by_reference"] = reference_stage(name, before) == after
    if extra:
        detail.update(extra)
    if len(res["violations"]) < 80:
        res["violations"].append({"kind": "layout_stage_changed_tree", "rule": name, "input": before, "detail": detail, "replay": replay})
    else:
        res["truncated"] = res.get("truncated", 0) + 1


def w_stages(arg):
    from .. import hooks, pipeline

    m = hooks.mods()
    res = {"cases": 0, "stage_events": {}, "stage_changed": {}, "violations": [], "nontrivial": [], "samples": [], "crashed": 0}
    for case in arg["cases"]:
        text = case["text"]
        if not pipeline.valid_fragment(text):
            continue
        res["cases"] += 1
        replay = {"fn": "harness.checks.c11:w_stages", "arg": {"cases": [case]}}
        obs = pipeline.observe_format(text, case.get("options"), want=("rule", "stage"))
        if obs["crash"]:
            res["crashed"] += 1
        stages = obs["stages"]
        # in-line stage: expandtabs is what lies between the API input and the first hooked stage
        first = next((s for s in stages if s["stage"] == "rmspace.format_str"), None)
        if first is not None and "skip_file" not in text and not any(s["stage"] == "expandtabs" for s in stages):  # (a tree that calls it through outside_strings reports it as a stage itself)
            judge_stage("expandtabs", text, first["in"], res, case["id"], replay)
        for s in stages:
            if s["stage"] == "processing.minimize_whitespace_line_differences":
                # contract: the result denotes the tree of the *new* text
                if pipeline.norm_dump(s["in"]) is not None:
                    judge_stage(s["stage"], s["in"], s["out"], res, case["id"], replay, {"old": s["old"][-400:], "inside": s["in_rule"][-1:]})
            else:
                judge_stage(s["stage"], s["in"], s["out"], res, case["id"], replay, {"inside": s["in_rule"][-1:]})
        # direct calls of the stages on the input itself
        if case.get("direct", True) and pipeline.valid(text):
            import rmspace

            fixes, formatting, proc = m["fixes"], m["formatting"], m["processing"]
            # rmspace is a third-party function; pyrefact's stage is the way it calls it (through formatting.outside_strings where the tree has that)
            strip = (lambda t: formatting.outside_strings(rmspace.format_str, t)) if hasattr(formatting, "outside_strings") else (lambda t: rmspace.format_str(t))
            tabs = (lambda t: formatting.outside_strings(lambda u: u.expandtabs(4), t)) if hasattr(formatting, "outside_strings") else (lambda t: t.expandtabs(4))
            for name, fn in (("rmspace.format_str", strip), ("expandtabs", tabs), ("fixes.fix_too_many_blank_lines", fixes.fix_too_many_blank_lines),
                             ("fixes.fix_import_spacing", fixes.fix_import_spacing),
                             ("fixes.fix_line_lengths", lambda t: fixes.fix_line_lengths(t, max_line_length=case.get("options", {}).get("max_line_length", 100))),
                             ("formatting.collapse_trailing_parentheses", formatting.collapse_trailing_parentheses)):
                real = getattr(fn, "__verif_wrapped__", fn)
                try:
                    out = fn(text)
                except Exception:
                    res["crashed"] += 1
                    continue
                # (the hooked stage already recorded this call through H-stage when it is a hooked function; judge explicitly anyway)
                if isinstance(out, str):
                    judge_stage(name, text, out, res, case["id"] + ":direct", replay)
    return res


# --------------------------------------------------------------------------------- parent side
def main() -> int:
    from .. import pool
    from ..gen import corpus, hostile

    v = verdict.Verdict(PROP)
    thorough = env.tier() == "thorough"
    r = env.rng(PROP, "main")
    cases = []
    tort = torture_sources()
    n_tort = len(tort)
    lengths = [60, 79, 100, 200]
    for i, (label, text) in enumerate(tort if thorough else r.sample(tort, 900)):
        cases.append({"id": f"torture:{label}", "text": text, "options": {"max_line_length": lengths[i % 4]}})
    for i, text in enumerate(LAYOUT_ODDITIES):
        for L in (lengths if thorough else [lengths[i % 4], 60]):
            cases.append({"id": f"oddity:{i}:{L}", "text": text, "options": {"max_line_length": L}})
    names = sorted(hostile.CONSTRUCTS)
    for i, n in enumerate(names):
        for pos in (hostile.POSITIONS if thorough else ["alone", "nested_class", "indented_tabs"]):
            cases.append({"id": f"zoo:{n}:{pos}", "text": hostile.place(hostile.CONSTRUCTS[n], pos), "options": {"max_line_length": lengths[i % 4]}})
    ex = corpus.repo_examples()
    for o, t in (ex if thorough else r.sample(ex, 200)):
        cases.append({"id": f"example:{o}", "text": t, "options": {"max_line_length": r.choice(lengths)}})
    for o, t in corpus.stdlib_files(20000 if thorough else 7000, limit=150 if thorough else 30):
        cases.append({"id": f"stdlib:{o}", "text": t, "options": {"max_line_length": r.choice(lengths)}, "direct": True})
    cases.sort(key=lambda c: -len(c["text"]))
    tasks, cur = [], []
    for c in cases:
        cur.append(c)
        if len(cur) >= (1 if len(c["text"]) > 2500 else 6):
            tasks.append({"cases": cur})
            cur = []
    if cur:
        tasks.append({"cases": cur})
    tot = {}
    with pool.Pool() as p:
        verdict.run_witnesses(v, p)
        reps = p.map("harness.checks.c11:w_stages", tasks, cpu_s=1200)
        verdict.pool_failures(v, reps, "C11 stages")
        for rep in reps:
            if rep.get("status") == "ok":
                _merge(tot, rep["value"])
    v.extend(tot.get("violations", []))
    changed = tot.get("stage_changed", {})
    for st in ("rmspace.format_str", "fixes.fix_too_many_blank_lines", "fixes.fix_line_lengths", "processing.minimize_whitespace_line_differences", "expandtabs"):
        if not changed.get(st):
            v.inconclusive_because(f"layout stage {st} never changed a text: its monitor observed nothing")
    cov = {
        "evaluations": sum(tot.get("stage_events", {}).values()),
        "distinct_nontrivial": len(set(tot.get("nontrivial", []))),
        "rule": "a case = one layout-stage call (inside a format_code run, or direct) on a valid text; non-trivial = the stage changed the text "
                "(then both trees were compared); distinct by (stage, input) digest",
        "samples": tot.get("samples", [])[:4] or [{"note": "none"}],
        "inputs": {"format_code_runs": tot.get("cases"), "literal_torture_total": n_tort, "literal_torture_run": n_tort if thorough else 900, "layout_oddities": len(LAYOUT_ODDITIES), "crashed": tot.get("crashed")},
        "stage_calls": tot.get("stage_events"),
        "stage_calls_that_changed_text": changed,
    }
    return v.finish(cov, assumptions=["whitespace inside doc-strings is normalised before comparing (the tolerated exception)",
                                      "the in-line expandtabs stage is observed as (format_code input, input of the first hooked stage)"])


def _merge(total, part):
    for k, val in part.items():
        if isinstance(val, bool):
            continue
        if isinstance(val, int):
            total[k] = total.get(k, 0) + val
        elif isinstance(val, list):
            total.setdefault(k, []).extend(val)
        elif isinstance(val, dict):
            d = total.setdefault(k, {})
            for kk, vv in val.items():
                d[kk] = d.get(kk, 0) + vv


def replay(rec) -> int:
    return verdict.generic_replay(PROP, rec)
