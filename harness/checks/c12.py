"""C12 - pattern matching agrees with its declarative semantics.

Oracle: ref/matcher.Pattern (independent, complete). Workloads: (A) all list-quantifier templates up to a
length bound x all element sequences up to a length bound in four list contexts (exhaustive for the bound);
(B) finditer vs reference search for patterns abstracted from real code; (C) self-match of every statement
and expression of corpus files.
"""
from __future__ import annotations

import ast
import itertools

from .. import env, verdict

PROP = "C12"
ELEMS = ["a", "b", "{{x}}", "{{y}}", "{{p?}}", "{{s*}}", "{{m+}}", "{{...}}", "{{...?}}", "{{...*}}", "{{...+}}"]
LETTERS = ["a", "b", "c"]
CONTEXTS = ("call", "list", "body", "import")


def render_pattern(ctx, elems):
    if ctx == "call":
        return "f(" + ", ".join(elems) + ")"
    if ctx == "list":
        return "[" + ", ".join(elems) + "]"
    if ctx == "body":
        return "def g():\n" + "".join(f"    {e}\n" for e in elems)
    if ctx == "import":
        return "from mod import " + ", ".join(elems)
    raise ValueError(ctx)


def node_of(ctx, text):
    tree = ast.parse(text)
    stmt = tree.body[0]
    return stmt.value if ctx in ("call", "list") else stmt


# --------------------------------------------------------------------------------- worker side
def w_enum(arg):
    from .. import hooks
    from ..ref import matcher

    core = hooks.mods()["core"]
    ctx = arg["context"]
    maxlen = arg["max_seq"]
    minlen = 1 if ctx in ("body", "import") else 0
    seqs = [list(s) for k in range(minlen, maxlen + 1) for s in itertools.product(LETTERS, repeat=k)]
    if arg.get("only_seq") is not None:
        seqs = [arg["only_seq"]]
    sources = [(s, render_pattern(ctx, s)) for s in seqs]
    nodes = [(s, text, node_of(ctx, text)) for s, text in sources]
    res = {"pairs": 0, "matches": 0, "undefined": 0, "violations": [], "nontrivial": 0, "samples": []}
    for elems in arg["templates"]:
        ptext = render_pattern(ctx, elems)
        try:
            ref = matcher.Pattern(ptext)
        except matcher.Undefined:
            res["undefined"] += len(nodes)
            continue
        try:
            tmpl = core.compile_template(ptext)
        except Exception as exc:
            res["violations"].append({"kind": "compile_raised", "detail": {"pattern": ptext, "exc": f"{type(exc).__name__}: {exc}"},
                                      "replay": {"fn": "harness.checks.c12:w_enum", "arg": dict(arg, templates=[elems])}})
            continue
        quantified = any(e.endswith(("?}}", "*}}", "+}}")) for e in elems)
        for seq, text, node in nodes:
            try:
                want = ref.matches(node)
            except matcher.Undefined:
                res["undefined"] += 1
                continue
            try:
                got = bool(core.match_template(node, tmpl))
            except Exception as exc:
                got = f"{type(exc).__name__}: {exc}"
            res["pairs"] += 1
            res["matches"] += bool(want)
            if quantified:
                res["nontrivial"] += 1
            if got != want:
                if len(res["violations"]) < 40:
                    res["violations"].append({
                        "kind": "match_mismatch", "input": text,
                        "detail": {"pattern": ptext, "source": text, "implementation": got, "reference": want, "context": ctx},
                        "replay": {"fn": "harness.checks.c12:w_enum", "arg": dict(arg, templates=[elems], only_seq=seq)}})
                else:
                    res["violations_truncated"] = res.get("violations_truncated", 0) + 1
            elif want and quantified and len(res["samples"]) < 1:
                res["samples"].append({"pattern": ptext, "source": text, "both": want})
    return res


def _abstract(source, tree, r):
    """A pattern obtained from a random statement/expression of `source` by replacing sub-expressions with wildcards."""
    from ..ref import span

    cands = [n for n in ast.walk(tree) if isinstance(n, (ast.stmt, ast.expr)) and not isinstance(n, (ast.Name, ast.Constant))
             and not isinstance(getattr(n, "ctx", None), (ast.Store, ast.Del))]
    if not cands:
        return None
    node = r.choice(cands)
    s, e = span.node_span(source, node)
    text = source[s:e]
    if len(text) > 400 or "{{" in text or not text.strip():
        return None
    # sub-expressions in Load context (not the node itself), chosen non-overlapping
    subs = [n for n in ast.walk(node) if n is not node and isinstance(n, ast.expr)
            and isinstance(getattr(n, "ctx", ast.Load()), ast.Load) and not isinstance(n, (ast.JoinedStr, ast.FormattedValue))
            and not (isinstance(n, ast.Constant) and isinstance(n.value, str))]
    r.shuffle(subs)
    chosen, names, taken = [], {}, []
    for sub in subs[: r.randint(0, 3) + 1]:
        ss, se = span.node_span(source, sub)
        if any(ss < te and ts < se for ts, te in taken) or se <= ss:
            continue
        if _inside_fstring(node, sub):
            continue
        taken.append((ss, se))
        key = ast.unparse(sub)
        if r.random() < 0.15:
            wname = "..."
        else:
            wname = names.setdefault(key, f"w{len(names)}")
        chosen.append((ss, se, wname))
    # line-start column of the node so that multi-line statements dedent consistently
    for ss, se, wname in sorted(chosen, reverse=True):
        text = text[: ss - s] + "{{" + wname + "}}" + text[se - s:]
    line_start = source.rfind("\n", 0, s) + 1
    indent = source[line_start:s]
    if indent.strip() == "" and "\n" in text:
        text = indent + text
    return text


def _abstract_sequence(source, tree, r):
    """A statement-sequence pattern: a window of 2-4 consecutive statements of some body, with statements
    replaced by `{{name}}` or dropped in favour of `{{...*}}` / `{{...?}}` / `{{...+}}`."""
    from ..ref import matcher, span

    holders = []
    for h in ast.walk(tree):
        if isinstance(h, matcher.BODY_TYPES):
            for body in (h.body, getattr(h, "orelse", []) if isinstance(h, matcher.ORELSE_TYPES) else []):
                if isinstance(body, list) and len(body) >= 2:
                    holders.append(body)
    if not holders:
        return None
    body = r.choice(holders)
    a = r.randrange(len(body) - 1)
    b = min(len(body), a + r.randint(2, 4))
    window = body[a:b]
    quantify = r.random() < 0.5
    parts = []
    used_q = False
    for k, st in enumerate(window):
        s, e = span.node_span(source, st)
        text = source[s:e]
        if "{{" in text or len(text) > 300:
            return None
        roll = r.random()
        inner = 0 < k < len(window) - 1
        if quantify and inner and roll < 0.6:
            parts.append(r.choice(["{{...*}}", "{{...?}}", "{{...+}}"]))
            used_q = True
        elif roll < 0.25 and not isinstance(st, (ast.FunctionDef, ast.ClassDef, ast.AsyncFunctionDef)):
            parts.append("{{s%d}}" % k)
        else:
            parts.append(_dedent_block(text, source, s))
    if quantify and not used_q:
        parts.insert(1, r.choice(["{{...*}}", "{{...?}}"]))
    return "\n".join(parts)


def _dedent_block(text, source, s):
    import textwrap

    line_start = source.rfind("\n", 0, s) + 1
    indent = source[line_start:s]
    if indent.strip() == "":
        return textwrap.dedent(indent + text)
    return text


HOSTILE = [
    ("g({{x}}, [{{...*}}, {{x}}, {{...*}}])", "g(b, [a, b])\ng(a, [a, b])\ng(c, [a, b])\n"),
    ("g([{{...*}}, {{x}}, {{...*}}], {{x}})", "g([a, b], b)\n"),
    ("[{{...*}}, {{x}}, {{...*}}, {{x}}, {{...*}}]", "y = [a, b, c, b]\nz = [a, b, c]\n"),
    ("x = 1\n{{...*}}\nz = 1", "x = 1\ny = 2\nw = 3\nz = 1\n"),
    ("def f():\n    x = 1\n    {{...*}}\n    z = 1", "def f():\n    x = 1\n    y = 2\n    w = 3\n    z = 1\n"),
    ("{{a}} = {{a}}", "x = x\ny = z\nq.r = q.r\n"),
    ("x = 1", "x = True\nx = 1\nx = 1.0\nx = 1j\n"),
    ("x = True", "x = True\nx = 1\n"),
    ("x = 0", "x = False\nx = 0\nx = 0.0\nx = -0\n"),
    ("f('a')", "f('a')\nf(b'a')\nf(\"a\")\n"),
    ("x = 1\n{{y}}", "x = 1\ny = 2\nx = 1\nfoo()\n"),
    ("{{f}}({{x}}, {{x}})", "g(a, a)\ng(a, b)\nh(g(1, 1), g(1, 1))\n"),
    ("for {{i}} in {{it}}:\n    {{...+}}", "for a in b:\n    c\nfor d in e:\n    f\n    g\nelse:\n    h\n"),
    ("if {{c}}:\n    {{a}}\nelse:\n    {{a}}", "if p:\n    q()\nelse:\n    q()\nif p:\n    q()\nelse:\n    r()\n"),
    ("{{x}}.append({{y}})", "a.append(b)\na.b.append(c)\nappend(d)\n"),
    ("def {{name}}():\n    return {{v}}", "def a():\n    return 1\nasync def b():\n    return 2\ndef c(x):\n    return 3\n"),
    ("class {{C}}:\n    {{...*}}", "class A:\n    x = 1\nclass B(A):\n    pass\n"),
    ("from {{m}} import {{n}}", "from a import b\nfrom a import b as c\nfrom a import b, c\nfrom . import d\n"),
    ("{{x}} if {{c}} else {{x}}", "y = a if b else a\nz = a if b else c\n"),
    ("lambda {{a}}: {{a}}", "f = lambda q: q\ng = lambda q: r\n"),
    # type parameters (3.12) are part of the tree
    ("def f():\n    pass", "def f[T]():\n    pass\ndef f():\n    pass\n"),
    ("def f[T]():\n    pass", "def f[T]():\n    pass\ndef f():\n    pass\ndef f[U]():\n    pass\n"),
    ("class A:\n    pass", "class A[T]:\n    pass\nclass A:\n    pass\n"),
    ("async def {{name}}():\n    {{...*}}", "async def a[T]():\n    pass\nasync def b():\n    pass\n"),
    ("def {{name}}({{a}}):\n    return {{a}}", "def ident[T](v):\n    return v\ndef plain(v):\n    return v\n"),
    # a wildcard where the code has no child at all: no syntax tree can stand there
    ("x: int = {{v}}", "x: int\nx: int = 1\n"),
    ("def f():\n    return {{v}}", "def f():\n    return\n"),
    ("return {{v}}", "def f():\n    return\ndef g():\n    return 1\n"),
    ("raise {{e}} from {{c}}", "raise E\nraise E from F\n"),
    ("raise {{e}}", "try:\n    pass\nexcept E:\n    raise\nraise F\n"),
    ("a[{{x}}:]", "a[:]\na[1:]\n"),
    ("a[{{x}}:{{y}}:{{z}}]", "a[1:2]\na[1:2:3]\na[::]\n"),
    ("def f() -> {{r}}:\n    pass", "def f():\n    pass\n"),
    ("def f(a: {{t}}):\n    pass", "def f(a):\n    pass\n"),
    ("assert {{c}}, {{m}}", "assert a\nassert a, b\n"),
    ("with {{c}} as {{n}}:\n    pass", "with a:\n    pass\nwith a as b:\n    pass\n"),
    ("yield {{v}}", "def g():\n    yield\n    yield 1\n"),
    ("f(**{{k}})", "f(**a)\nf(b=1)\n"),
    ("{**{{d}}}", "x = {**a}\ny = {b: 1}\n"),
]


def _inside_fstring(root, sub):
    for n in ast.walk(root):
        if isinstance(n, ast.JoinedStr):
            for m in ast.walk(n):
                if m is sub:
                    return True
    return False


def w_search(arg):
    """finditer(pattern, source) vs reference search, patterns abstracted from the source itself."""
    from .. import hooks
    from ..ref import matcher, span

    pm = hooks.mods()["pattern_matching"]
    res = {"cases": 0, "ref_matches": 0, "undefined": 0, "violations": [], "nontrivial": [], "samples": [], "planted_found": 0}
    for item in arg["items"]:
        source = item["text"]
        if not source.isascii():
            continue
        try:
            tree = ast.parse(source)
        except SyntaxError:
            continue
        r = env.rng(PROP, "search", item["id"])
        pats = list(item.get("patterns") or [])
        if not pats:
            for k in range(arg.get("per_source", 4)):
                p = _abstract(source, tree, r) if k % 3 else _abstract_sequence(source, tree, r)
                if p:
                    pats.append(p)
        for ptext in pats:
            try:
                ref = matcher.Pattern(ptext)
                want = ref.search(tree)
                want_spans = sorted({span.nodes_span(source, nodes) for nodes, _ in want})
            except matcher.Undefined:
                res["undefined"] += 1
                continue
            except (SyntaxError, ValueError, RecursionError):
                res["undefined"] += 1
                continue
            try:
                got = list(pm.finditer(ptext, source))
                got_spans = sorted({(m.span.start, m.span.end) for m in got})
            except Exception as exc:
                got_spans = f"{type(exc).__name__}: {exc}"
            res["cases"] += 1
            res["ref_matches"] += len(want_spans)
            if want_spans:
                res["planted_found"] += 1
                res["nontrivial"].append(env.digest(ptext + "\0" + source))
            if got_spans != want_spans:
                kind = "search_mismatch"
                res["violations"].append({
                    "kind": kind, "input": source,
                    "detail": {"pattern": ptext, "implementation": got_spans, "reference": want_spans,
                               "toplevel_quantifier": ref.has_toplevel_quantifier(), "pattern_kind": ref.kind,
                               "missing": [source[s:e] for s, e in want_spans if not isinstance(got_spans, str) and (s, e) not in got_spans][:3],
                               "extra": [source[s:e] for s, e in (got_spans if not isinstance(got_spans, str) else []) if (s, e) not in want_spans][:3]},
                    "replay": {"fn": "harness.checks.c12:w_search", "arg": {"items": [dict(item, patterns=[ptext])]}}})
            elif want_spans and len(res["samples"]) < 1:
                res["samples"].append({"pattern": ptext, "matches": [source[s:e] for s, e in want_spans][:3]})
    return res


def w_self(arg):
    """Every statement and expression of a file matches the template compiled from its own text."""
    from .. import hooks
    from ..ref import span

    core = hooks.mods()["core"]
    res = {"nodes": 0, "skipped": 0, "violations": [], "nontrivial": []}
    for item in arg["items"]:
        source = item["text"]
        try:
            tree = ast.parse(source)
        except SyntaxError:
            continue
        seen = set()
        for node in ast.walk(tree):
            if not isinstance(node, (ast.stmt, ast.expr)):
                continue
            try:
                s, e = span.node_span(source, node)
            except Exception:
                continue
            seg = source[s:e]
            if "{{" in seg or "}}" in seg or "____wildcard__" in seg or len(seg) > 1500 or seg in seen:
                res["skipped"] += 1
                continue
            seen.add(seg)
            import textwrap
            line_start = source.rfind("\n", 0, s) + 1
            text = textwrap.dedent(source[line_start:s] + seg) if source[line_start:s].strip() == "" else seg
            try:
                own = ast.parse(text)
            except (SyntaxError, ValueError):
                res["skipped"] += 1
                continue
            if len(own.body) != 1:
                res["skipped"] += 1
                continue
            target = own.body[0]
            if isinstance(target, ast.Expr):
                target = target.value  # compile_template strips the Expr wrapper of an expression pattern
            if type(target) is not type(node.value if isinstance(node, ast.Expr) else node):
                res["skipped"] += 1
                continue
            try:
                tmpl = core.compile_template(text)
                ok = bool(core.match_template(target, tmpl))
            except Exception as exc:
                ok = f"{type(exc).__name__}: {exc}"
            res["nodes"] += 1
            if len(res["nontrivial"]) < 4000:
                res["nontrivial"].append(env.digest(text))
            if ok is not True:
                if len(res["violations"]) < 30:
                    res["violations"].append({"kind": "no_self_match", "input": text, "detail": {"code": text, "result": ok, "node": type(node).__name__},
                                              "replay": {"fn": "harness.checks.c12:w_self", "arg": {"items": [{"id": "replay", "text": text + "\n"}]}}})
    return res


# --------------------------------------------------------------------------------- parent side
def main() -> int:
    from .. import pool
    from ..gen import corpus

    v = verdict.Verdict(PROP)
    thorough = env.tier() == "thorough"
    max_t, max_s = (4, 5) if thorough else (3, 5)
    tasks = []
    n_templates = 0
    for ctx in CONTEXTS:
        lo = 1 if ctx in ("body", "import") else 0
        templates = [list(t) for k in range(lo, max_t + 1) for t in itertools.product(ELEMS, repeat=k)]
        n_templates += len(templates)
        size = 120 if thorough else 60
        for i in range(0, len(templates), size):
            tasks.append({"context": ctx, "templates": templates[i:i + size], "max_seq": max_s})
    examples = [{"id": o, "text": t} for o, t in corpus.repo_examples() if t.isascii()]
    files = [{"id": o, "text": t} for o, t in corpus.stdlib_files(9000 if not thorough else 20000, limit=40 if not thorough else 150) if t.isascii()]
    r = env.rng(PROP, "pick")
    ex = examples if thorough else r.sample(examples, min(300, len(examples)))
    search_items = [{"id": f"hostile{i}", "text": src, "patterns": [pat]} for i, (pat, src) in enumerate(HOSTILE)] + ex + files
    search_tasks = [{"items": search_items[i:i + 6], "per_source": 8 if thorough else 4} for i in range(0, len(search_items), 6)]
    self_items = files + (ex[:200] if not thorough else ex)
    self_tasks = [{"items": self_items[i:i + 4]} for i in range(0, len(self_items), 4)]

    tot = {"enum": {}, "search": {}, "self": {}}
    with pool.Pool() as p:
        verdict.run_witnesses(v, p)
        for name, fn, ts in (("enum", "w_enum", tasks), ("search", "w_search", search_tasks), ("self", "w_self", self_tasks)):
            reps = p.map(f"harness.checks.c12:{fn}", ts, cpu_s=1200)
            verdict.pool_failures(v, reps, f"C12 {name}")
            for rep in reps:
                if rep.get("status") == "ok":
                    _merge(tot[name], rep["value"])
    for name in tot:
        v.extend(tot[name].get("violations", []))
    if tot["enum"].get("pairs", 0) == 0:
        v.inconclusive_because("no enumerated (template, sequence) pair was evaluated")
    if tot["search"].get("planted_found", 0) == 0:
        v.inconclusive_because("the reference search never found an occurrence: search comparison saw nothing")
    nontrivial = tot["enum"].get("nontrivial", 0) + len(set(tot["search"].get("nontrivial", []))) + len(set(tot["self"].get("nontrivial", [])))
    cov = {
        "evaluations": tot["enum"].get("pairs", 0) + tot["search"].get("cases", 0) + tot["self"].get("nodes", 0),
        "distinct_nontrivial": nontrivial,
        "rule": "enumerated pairs are distinct by construction, non-trivial = the template contains a ?, * or + wildcard; "
                "search cases non-trivial = the reference found >= 1 occurrence, distinct by (pattern, source) digest; "
                "self-match nodes distinct by text",
        "samples": (tot["enum"].get("samples", [])[:2] + tot["search"].get("samples", [])[:2]) or [{"note": "none"}],
        "enumeration": {"contexts": list(CONTEXTS), "max_template_len": max_t, "max_sequence_len": max_s, "templates": n_templates,
                        "pairs": tot["enum"].get("pairs"), "reference_matches": tot["enum"].get("matches"),
                        "undefined_by_reference": tot["enum"].get("undefined"), "exhaustive_for_bound": True},
        "search": {k: tot["search"].get(k) for k in ("cases", "ref_matches", "planted_found", "undefined")},
        "self_match": {k: tot["self"].get(k) for k in ("nodes", "skipped")},
        "exhaustive": False,
    }
    return v.finish(cov, assumptions=[
        "named quantified wildcards require every repetition to print identically (the reading fixed by the pinned tests)",
        "patterns use wildcards only in positions the pattern compiler supports; PEP 695 generics and cross-type constant equality are left undefined by the reference",
        "search comparison uses ASCII sources so that span defects (C13) do not leak into C12",
    ])


def _merge(total, part):
    for k, val in part.items():
        if isinstance(val, bool):
            continue
        if isinstance(val, int):
            total[k] = total.get(k, 0) + val
        elif isinstance(val, list):
            total.setdefault(k, []).extend(val)


def replay(rec) -> int:
    return verdict.generic_replay(PROP, rec)
