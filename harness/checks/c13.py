"""C13 - match objects and the re-like API are geometrically coherent.

Monitors: post-conditions on every Match produced by finditer (range, string, node text, line/column against the
independent span computation of ref/span.py), literal API relations (findall/search/match/fullmatch vs finditer),
and the command-line finder run as a subprocess. Workload: real sources under hostile layout variants.
"""
from __future__ import annotations

import ast
import os
import subprocess
import sys

from .. import env, verdict
from . import c12

PROP = "C13"
GENERIC_PATTERNS = [
    "{{f}}({{...*}})", "{{a}} = {{b}}", "return {{x}}", "{{x}}.{{attr}}", "{{a}} + {{b}}", "[{{...*}}]",
    "if {{c}}:\n    {{...+}}", "for {{i}} in {{it}}:\n    {{...+}}", "{{x}}[{{i}}]", "{{a}} == {{b}}",
    "{{s}}\n{{t}}", "print({{...*}})", "def {{f}}():\n    {{...+}}", "class {{C}}:\n    {{...+}}", "{{x}}",
    "import {{m}}", "{{a}} and {{b}}", "lambda: {{x}}", "({{a}}, {{b}})", "not {{x}}",
]
BASES = [
    # multi-byte characters before a node and further ones right behind its start and its end (a byte/character conversion that looks at a window of the line)
    'x = ["\u65e5\u672c\u8a9e", -f("\u00e9")]\ny = ["\u00e4\u00f6\u00fc", not f("\u00e9"), f("\u00fc")]\nr = \'\U0001f600\U0001f600\'; v = -f(\'\u00e9\u00e9\')+f(\'\u00e9\')\n',
    # decorated async functions, alone and in a class
    "@decorator\nasync def first(a):\n    return a\n\n\nclass K:\n    @other.deco(1)\n    @more\n    async def m(self):\n        return 1\n\n    @ spaced\n    async def n(self): pass\n",
    # the first statement has its match deep inside, a later statement has one on top
    "x + 1 if c else y\nz + 1\nw = (a + 1) * 2\n",
    # a decorator as the very first character of the file, spaced and parenthesised decorators, an `@` that is only a comment
    "@decorator\ndef first(a):\n    return a\n\n\n@ spaced.deco\nclass C:\n    pass\n\n\n@(paren_deco)\nasync def g():\n    pass  #@\n\n\ndef h(): pass  #@\n",
    # several multi-byte tokens on one line, before and at the matched position
    "ä = 1; é = ä + 1\ns = \"ää\"; print(\"ö\", s)\nnaïve = f(ä, \"日本\", é); r = [é, ä]\n",
    "import os\n\n\n@decorator\n@other.deco(1)\ndef f(a, b=2):\n    x = g(a) + h(b, [a, b])\n    if x:\n        return x.y.z\n    return (a,\n            b)\n\n\nclass K(Base):\n    @staticmethod\n    def m():\n        return [i for i in range(3)]\n\n\nresult = f(1)\nprint(result, K.m())\n",
    "x = 1\ny = x + 2\nz = [x, y, foo(x, y)]\nfor i in z:\n    print(i)\n    if i == 2:\n        continue\nwhile x:\n    x = x - 1\nelse:\n    y = 0\n",
    "def outer():\n    def inner(q):\n        return q.attr[0]\n    values = (\n        inner(1),\n        inner(2),\n    )\n    return values\n\nwith open(name) as fh:\n    data = fh.read()\n",
]


def variants(source: str, r):
    """Hostile layout variants of a valid source; every variant is checked to parse."""
    out = [("plain", source)]
    lines = source.split("\n")

    def ok(text):
        try:
            ast.parse(text)
            return True
        except (SyntaxError, ValueError):
            return False

    # non-ASCII before code on the same line
    v = []
    for ln in lines:
        stripped = ln.strip()
        simple = stripped and not stripped.endswith(":") and not stripped.startswith(("@", "def ", "class ", "if ", "for ", "while ", "with ", "else", "elif", "try", "except", "finally", ")", "]", "}", "#"))
        if simple and r.random() < 0.5 and ln[: len(ln) - len(ln.lstrip())] == ln[: len(ln) - len(ln.lstrip())]:
            indent = ln[: len(ln) - len(ln.lstrip())]
            v.append(f'{indent}"üñí€"; {stripped}')
        else:
            v.append(ln)
    out.append(("nonascii_prefix", "\n".join(v)))
    # non-ASCII identifiers and literals
    import re as _re
    out.append(("nonascii_names", _re.sub(r"\bx\b", "xé", _re.sub(r"\bresult\b", "résultat", source)).replace("print(", "print('→', ")))
    out.append(("no_trailing_newline", source.rstrip("\n")))
    out.append(("crlf", source.replace("\n", "\r\n")))
    out.append(("cr", source.replace("\n", "\r")))
    out.append(("formfeed_between", source.replace("\n\n", "\n\x0c\n", 2)))
    seps = ["\x0c", "\x1c", "\x1d", "\x1e", "\x85", "\u2028", "\u2029", "\x0b"]
    sep = r.choice(seps)
    out.append(("separator_in_literal", f's0 = "a{sep}b"\n' + source.replace("\n", f'  # c{sep}d\n', 1)))
    out.append(("separator_in_literal_mid", source.replace("\n", f"\nlit = 'p{r.choice(seps)}q'\n", 2)))
    out.append(("tabs", source.replace("    ", "\t")))
    out.append(("leading_blank_and_comment", "\n# comment é\n\n" + source))
    out.append(("indented_fragment", "if True:\n" + "".join("    " + l + "\n" if l else "\n" for l in lines)))
    return [(name, text) for name, text in out if ok(text)]


# --------------------------------------------------------------------------------- worker side
def check_geometry(pm, core, pattern, source, res, case):
    from ..ref import span

    def viol(kind, detail):
        if len(res["violations"]) < 60:
            res["violations"].append({"kind": kind, "input": source, "detail": dict(detail, pattern=pattern, variant=case.get("variant")),
                                      "replay": {"fn": "harness.checks.c13:w_geom", "arg": {"cases": [dict(case, patterns=[pattern])]}}})
        else:
            res["truncated"] = res.get("truncated", 0) + 1

    if c12_pattern(pattern) is None:
        res["patterns_skipped"] = res.get("patterns_skipped", 0) + 1
        return  # not a pattern of the language (does not parse / outside the reference's domain)
    try:
        ms = list(pm.finditer(pattern, source))
    except Exception as exc:
        viol("api_raised", {"api": "finditer", "exc": f"{type(exc).__name__}: {exc}"})
        return
    res["finditer_calls"] += 1
    tree = ast.parse(source)
    for m in ms:
        res["matches"] += 1
        s, e = m.span.start, m.span.end
        if not (0 <= s <= e <= len(source)):
            viol("span_outside_source", {"span": (s, e), "len": len(source)})
            continue
        if m.string != source[s:e]:
            viol("string_is_not_slice", {"span": (s, e), "string": m.string})
        root = m.groups[0] if m.groups else None
        if isinstance(root, ast.AST) and not isinstance(root, ast.Module) and hasattr(root, "lineno"):
            want = span.node_span(source, root)
            res["node_spans_checked"] += 1
            if (s, e) != want:
                viol("span_is_not_node_text", {"span": (s, e), "reference_span": want, "slice": source[s:e][:200],
                                               "node_text": source[want[0]:want[1]][:200], "node": type(root).__name__})
        want_lc = span.lineno_col(source, s)
        try:
            got_lc = (m.lineno, m.col_offset)
        except Exception as exc:
            got_lc = f"{type(exc).__name__}: {exc}"
        res["linecols_checked"] += 1
        if got_lc != want_lc:
            viol("line_col_mismatch", {"span": (s, e), "got": got_lc, "reference": want_lc})
    # sequence patterns: spans against the reference search (node identity is not exposed for sequences)
    spans = [(m.span.start, m.span.end) for m in ms]
    try:
        ref = c12_pattern(pattern)
        if ref is not None and ref.kind == "seq" and not ref.has_toplevel_quantifier():
            want = sorted({span.nodes_span(source, nodes) for nodes, _ in ref.search(tree)})
            res["seq_searches_checked"] += 1
            if sorted(set(spans)) != want:
                viol("sequence_spans_mismatch", {"got": sorted(set(spans)), "reference": want})
    except Exception:
        pass
    # API relations, literally
    try:
        fa = pm.findall(pattern, source)
        if fa != [m.string for m in ms]:
            viol("findall_differs_from_finditer", {"findall": fa[:5], "finditer": [m.string for m in ms][:5]})
        se = pm.search(pattern, source)
        first = ms[0] if ms else None
        if (se is None) != (first is None) or (se is not None and tuple(se.span) != tuple(first.span)):
            viol("search_is_not_first_finditer", {"search": se and tuple(se.span), "first": first and tuple(first.span)})
        body = tree.body
        if body:
            b0 = min(span.node_span(source, n)[0] for n in body)
            b1 = max(span.node_span(source, n)[1] for n in body)
            want_m = next((sp for sp in spans if sp[0] == b0), None)
            got_m = pm.match(pattern, source)
            if (got_m and tuple(got_m.span)) != want_m:
                viol("match_disagrees_with_definition", {"match": got_m and tuple(got_m.span), "expected": want_m, "body_start": b0})
            want_f = next((sp for sp in spans if sp == (b0, b1)), None)
            got_f = pm.fullmatch(pattern, source)
            if (got_f and tuple(got_f.span)) != want_f:
                viol("fullmatch_disagrees_with_definition", {"fullmatch": got_f and tuple(got_f.span), "expected": want_f, "body": (b0, b1)})
            res["api_relations_checked"] += 1
    except Exception as exc:
        viol("api_raised", {"api": "findall/search/match/fullmatch", "exc": f"{type(exc).__name__}: {exc}"})
    if ms:
        res["nontrivial"].append(env.digest(pattern + "\0" + source))
        if len(res["samples"]) < 1 and case.get("variant") != "plain":
            res["samples"].append({"variant": case.get("variant"), "pattern": pattern, "first_match": {"span": spans[0], "text": ms[0].string[:80],
                                   "line_col": (ms[0].lineno, ms[0].col_offset)}})


def c12_pattern(pattern):
    from ..ref import matcher

    try:
        return matcher.Pattern(pattern)
    except (matcher.Undefined, SyntaxError, ValueError):
        return None


def w_geom(arg):
    from .. import hooks

    m = hooks.mods()
    pm, core = m["pattern_matching"], m["core"]
    res = {"finditer_calls": 0, "matches": 0, "node_spans_checked": 0, "linecols_checked": 0, "seq_searches_checked": 0,
           "api_relations_checked": 0, "violations": [], "nontrivial": [], "samples": [], "variants": {}}
    for case in arg["cases"]:
        source = case["text"]
        try:
            tree = ast.parse(source)
        except (SyntaxError, ValueError):
            continue
        r = env.rng(PROP, "pat", case["id"], case.get("variant"))
        pats = list(case.get("patterns") or [])
        if not pats:
            pats = r.sample(GENERIC_PATTERNS, 6)
            for k in range(case.get("abstracted", 3)):
                p = c12._abstract(source, tree, r) if k % 3 else c12._abstract_sequence(source, tree, r)
                if p:
                    pats.append(p)
        res["variants"][case.get("variant", "?")] = res["variants"].get(case.get("variant", "?"), 0) + 1
        for p in pats:
            check_geometry(pm, core, p, source, res, case)
    return res


def w_cli(arg):
    """`python -m pyrefact.pattern_matching find` printed locations vs finditer on the text the CLI read."""
    import pathlib
    import tempfile

    from .. import hooks
    from ..ref import span

    pm = hooks.mods()["pattern_matching"]
    res = {"cli_runs": 0, "cli_lines": 0, "violations": [], "nontrivial": []}
    tmp = pathlib.Path(tempfile.mkdtemp(prefix="c13cli-"))
    try:
        for case in arg["cases"]:
            path = tmp / "target.py"
            path.write_text(case["text"], encoding="utf-8", newline="")
            seen = path.read_text()
            for pattern in case["patterns"]:
                proc = subprocess.run([sys.executable, "-m", "pyrefact.pattern_matching", "find", pattern, str(path)],
                                      capture_output=True, text=True, timeout=120, env=dict(os.environ, PYTHONIOENCODING="utf-8"))
                res["cli_runs"] += 1
                try:
                    tree = ast.parse(seen)
                    ms = list(pm.finditer(pattern, seen))
                except Exception:
                    continue
                want = []
                for m in ms:
                    ln, col = span.lineno_col(seen, m.span.start)
                    first = seen[m.span.start:m.span.end].splitlines()[0] if m.span.end > m.span.start else ""
                    want.append(f"{path}:{ln}:{col}: {first}")
                got = [l for l in proc.stdout.splitlines() if l.startswith(str(path))]
                res["cli_lines"] += len(got)
                if ms:
                    res["nontrivial"].append(env.digest(pattern + seen))
                if proc.returncode != 0 or sorted(got) != sorted(want):  # the order of results is C06's business
                    res["violations"].append({"kind": "cli_locations_differ", "input": case["text"],
                                              "detail": {"pattern": pattern, "cli": got[:6], "expected": want[:6], "rc": proc.returncode,
                                                         "stderr": proc.stderr[-300:], "variant": case.get("variant")},
                                              "replay": {"fn": "harness.checks.c13:w_cli", "arg": {"cases": [dict(case, patterns=[pattern])]}}})
    finally:
        import shutil

        shutil.rmtree(tmp, ignore_errors=True)
    return res


# --------------------------------------------------------------------------------- parent side
def build_cases(thorough):
    from ..gen import corpus

    r = env.rng(PROP, "cases")
    sources = [("base%d" % i, b) for i, b in enumerate(BASES)]
    ex = [(o, t) for o, t in corpus.repo_examples(3)]
    sources += r.sample(ex, 120 if thorough else 40)
    files = corpus.stdlib_files(8000, limit=60 if thorough else 12)
    sources += files
    cases = []
    for sid, text in sources:
        import textwrap

        text = textwrap.dedent(text)
        try:
            ast.parse(text)
        except (SyntaxError, ValueError):
            continue
        for name, vt in variants(text, env.rng(PROP, "variant", sid)):
            cases.append({"id": sid, "variant": name, "text": vt, "abstracted": 6 if thorough else 3})
    return cases


def main() -> int:
    from .. import pool

    v = verdict.Verdict(PROP)
    thorough = env.tier() == "thorough"
    cases = build_cases(thorough)
    tasks = [{"cases": cases[i:i + 5]} for i in range(0, len(cases), 5)]
    r = env.rng(PROP, "cli")
    cli_cases = [dict(c, patterns=r.sample(GENERIC_PATTERNS[:12], 2)) for c in cases if c["id"].startswith("base")]
    cli_cases = cli_cases if thorough else cli_cases[::2]
    cli_tasks = [{"cases": cli_cases[i:i + 2]} for i in range(0, len(cli_cases), 2)]
    tot, tot_cli = {}, {}
    with pool.Pool() as p:
        verdict.run_witnesses(v, p)
        reps = p.map("harness.checks.c13:w_geom", tasks, cpu_s=900)
        verdict.pool_failures(v, reps, "C13 geometry")
        for rep in reps:
            if rep.get("status") == "ok":
                _merge(tot, rep["value"])
        reps = p.map("harness.checks.c13:w_cli", cli_tasks, cpu_s=600)
        verdict.pool_failures(v, reps, "C13 cli")
        for rep in reps:
            if rep.get("status") == "ok":
                _merge(tot_cli, rep["value"])
    v.extend(tot.get("violations", []))
    v.extend(tot_cli.get("violations", []))
    if tot.get("matches", 0) == 0:
        v.inconclusive_because("no match object was observed")
    if tot_cli.get("cli_lines", 0) == 0:
        v.inconclusive_because("the command-line finder printed no location")
    cov = {
        "evaluations": tot.get("finditer_calls", 0) + tot_cli.get("cli_runs", 0),
        "distinct_nontrivial": len(set(tot.get("nontrivial", []))) + len(set(tot_cli.get("nontrivial", []))),
        "rule": "a case = one (pattern, source variant) pair driven through finditer/findall/search/match/fullmatch (or the CLI); "
                "non-trivial = at least one match was reported; distinct by digest of (pattern, source)",
        "samples": tot.get("samples", [])[:4] or [{"note": "none"}],
        "monitors": {k: tot.get(k) for k in ("finditer_calls", "matches", "node_spans_checked", "linecols_checked", "seq_searches_checked", "api_relations_checked")},
        "variants_seen": tot.get("variants"),
        "cli": {k: tot_cli.get(k) for k in ("cli_runs", "cli_lines")},
    }
    return v.finish(cov, assumptions=[
        "the complete text of a node is ast.get_source_segment semantics (UTF-8 byte columns, tokenizer line splitting) extended to decorators",
        "line/column of a span start: lines split on \\n, \\r\\n, \\r as Python's tokenizer does; column in characters",
    ])


def _merge(total, part):
    for k, val in part.items():
        if isinstance(val, bool):
            continue
        if isinstance(val, int):
            total[k] = total.get(k, 0) + val
        elif isinstance(val, list):
            total.setdefault(k, []).extend(val)
        elif isinstance(val, dict):
            d = total.setdefault(k, {})
            for kk, vv in val.items():
                d[kk] = d.get(kk, 0) + vv


def replay(rec) -> int:
    return verdict.generic_replay(PROP, rec)
