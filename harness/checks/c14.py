"""C14 - pattern substitution rewrites exactly the matches and nothing else.

Oracle: AST-level reference substitution over the applied set the monitor observed (H-sched log of the very
call): ref/matcher finds the occurrences, ref/subst instantiates the replacement by *tree* substitution and
rebuilds the expected module tree.
"""
from __future__ import annotations

import ast
import re

from .. import env, verdict
from . import c12, c13

PROP = "C14"

HOSTILE = [
    # (pattern, replacement, source, count)
    # the template spells a string in a way the source does not, the source spells that value in several ways, on lines no match touches
    ("f({{x}})", 'g({{x}}, "x")', "a = 'x'\nb = '''x'''\nc = 'x'\ny = f(1)\nd = '''x'''\n", 0),
    ("f({{x}})", "g({{x}}, 'yy')", 'a = r"yy"\nb = "yy"\nc = r"yy"\ny = f(1)\n', 0),
    ("f({{x}})", 'g({{x}}, "k", b"k")', "a = b'k'\nb = 'k'\nc = u'k'\nd = '''k'''\ny = f(a)\ne = \"\"\"k\"\"\"\n", 0),
    # several multi-byte characters before the match and another one right behind its start or end
    ("f({{x}})", "g({{x}})", 'x = ["日本語", -f("é")]\ny = ["äöü", not f("é"), f("ü")]\n', 0),
    ("{{a}} + {{b}}", "add({{a}}, {{b}})", 's = "日本" ; t = -é + ä*ö ; u = "é" + "ü" + "\U0001f600"\n', 0),
    ("f({{x}})", "{{x}}", "r = '\U0001f600\U0001f600'; v = -f('éé')+f('é')\n", 0),
    ("f({{x}})", "{{x}} * 2", "y = f(a + b)\n", 0),
    ("f({{x}})", "not {{x}}", "y = f(a or b)\nz = f(a) == c\n", 0),
    ("f({{x}})", "{{x}}()", "y = f(lambda: 1)\n", 0),
    ("f({{x}})", "{{x}}.real", "y = f(-a)\nz = f(b)\n", 0),
    ("f({{x}})", "{{x}} ** 2", "y = f(-a)\n", 0),
    ("f({{x}})", "-{{x}}", "y = f(a - b)\n", 0),
    ("f({{x}})", "g({{x}})", "y = f(f(a))\nz = f(b) + f(c)\n", 0),
    ("f({{x}})", "g({{x}})", "y = f(f(a))\nz = f(b) + f(c)\n", 1),
    ("f({{x}})", "g({{x}})", "y = f(a)\nz = f(b) + f(c)\nw = f(d)\n", 2),
    ("f({{x}})", "g({{x}}, {{x}})", "y = f(a)  # pyrefact: ignore\nz = f(b)\n", 0),
    ("f({{x}})", "g()", "for i in f(a):\n    print(f(i))\n", 0),
    ("{{a}} = {{b}}", "{{b}} = {{a}}", "x = y\nif c:\n    p.q = r\n", 0),
    ("{{a}} = {{b}}", "{{a}} = {{b}}", "x = y\nif c:\n    p.q = (r,\n           s)\n", 0),
    ("print({{x}})", "log({{x}})\nflush()", "def f():\n    print(1)\n    if a:\n        print(2)\n", 0),
    ("x = 1\ny = 2", "z = 3", "x = 1\ny = 2\nw = 0\nx = 1\ny = 2\n", 0),
    ("x = {{v}}\ny = {{v}}", "x = y = {{v}}", "def g():\n    x = a + b\n    y = a + b\n    return x\n", 0),
    ("sum({{x}})", "total({{x}}, 0)", "s = sum(i for i in y)\n", 0),
    ("h({{x}})", "k({{x}})", "y = 1\n", 0),
    ("{{f}}({{x}}, {{y}})", "{{f}}({{y}}, {{x}})", "r = sub(a, b) + sub(c, sub(d, e))\n", 0),
    ("return {{x}}", "return ({{x}}, None)", "def f(a):\n    if a:\n        return a, 1\n    return [\n        a,\n    ]\n", 0),
    ("assert {{c}}", "check({{c}})", "assert a, 'msg'\nassert b\n", 0),
    ("{{x}} is None", "{{x}} == None", "if a is None or b.c is None:\n    pass\n", 0),
    ("f({{x}})", "{{x}} if {{x}} else None", "y = [f(a if b else c)]\n", 0),
    ("f({{x}})", "{{x}}[0]", "y = f(a, )\nz = f((a, b))\n", 0),
    ("f({{x}})", "{{x}}", "y = f(yield_ := 3)\nz = f(a)(b)\n", 0),
    ("f({{x}})", "'{{x}}'", "y = f(a)\n", 0),
    ("f({{x}})", "g({{x}})", "y = f('ü→') + f(1)  # é\nz = 'x'; w = f(2)\n", 0),
    ("while {{c}}:\n    {{...+}}", "loop()", "while a:\n    b\n    c\nelse:\n    d\nwhile e:\n    f\n", 0),
    # bindings whose text contains backslashes, braces, dollar signs, group references: instantiation must paste them verbatim
    ("f({{x}})", "g({{x}})", "y = f('a\\nb')\nz = f('c\\\\d')\nw = f(r'\\d+\\1\\g<0>')\n", 0),
    ("f({{x}})", "g({{x}}, {{x}})", "y = f('\\t$1 \\\\ {0} %s')\n", 0),
    ("{{a}} = {{b}}", "{{a}} = wrap({{b}})", "pattern = '\\w+\\s*'\nother = b'\\x00\\\\'\n", 0),
    # a generator expression that shares its parentheses with the call it is the only argument of
    ("({{a}} for {{a}} in {{b}})", "list({{b}})", "s = sum(x for x in y)\n", 0),
    ("({{a}} for {{a}} in {{b}})", "{{b}}", "def f(y):\n    return any(x for x in y)\n", 0),
    ("({{a}} for {{a}} in {{b}})", "iter({{b}})", "line = ', '.join(w for w in words)\nt = [sum(x for x in y), len(y)]\n", 0),
    ("({{a}} for {{a}} in {{b}})", "sorted({{b}})[::-1]", "g = (x for x in y)\ns = sum((x for x in y), 3)\nprint(max(v for v in values), min(values))\n", 0),
    ("({{a}} for {{a}} in {{b}})", "tuple({{b}})", "for item in items:\n    if item:\n        out.extend(i for i in item)\n", 0),
    ("({{a}} for {{a}} in {{b}})", "({{a}} for {{a}} in sorted({{b}}))", "s = sum(x for x in y)\nu = sum((x for x in y))\n", 0),
    # replacements of several statements where the match does not start its own plainly indented line
    ("y = {{v}}", "y = {{v}}\nz = 0", "def f():\n    if a:\n        y = g(1,\n    2)\n    return y\n", 0),
    ("x = 1", "x = 3\nz = 4", "def f():\n    if a: x = 1\n    return x\n", 0),
    ("x = 1", "x = 3\nz = 4", "for i in b: x = 1\nprint(x)\n", 0),
    ("x = 1", "x = 3\nz = 4", "if a:\n    pass\nelse: x = 1\nprint(x)\n", 0),
    ("x = 1", "x = 3\nz = 4", "y = 0; x = 1\nprint(x)\n", 0),
    ("x = {{v}}", "x = {{v}}\ny = {{v}}", "if a:\n\tx = 2\n\tz = 3\n", 0),
    # a string literal of several lines in the replacement, a wildcard spelled inside a literal of the source, a wildcard called like a field of the match
    ("y = 1", 'y = """line1\nline2"""', "if a:\n    y = 1\n", 0),
    ("y = 1", 'y = ("""line1\n  line2""", 2)', "def f():\n    if a:\n        y = 1\n    return y\n", 0),
    ("f({{x}}, {{y}})", "g({{x}}, {{y}})", "f('{{y}}', 2)\n", 0),
    ("f({{x}}, {{y}})", "g({{y}}, {{x}})", "r = f(2, \"{{x}} and {{y}}\")\n", 0),
    ("foo({{root}})", "bar({{root}})", "foo(1)\n", 0),
    ("{{root}} + 1", "{{root}} - 1", "y = foo(1) + 1\n", 0),
    # a wildcard bound to a compound statement
    ("for i in {{it}}:\n    {{s}}", "for i in iter({{it}}):\n    {{s}}", "for i in b:\n    if a:\n        foo(1)\n", 0),
    ("for i in {{it}}:\n    {{s}}", "for i in iter({{it}}):\n    {{s}}", "for i in a:\n    f(i)\nfor i in b:\n    if i:\n        g(i)\n", 0),
]

EXPR_REPLS = ["g({{A}})", "{{A}} * 2", "not {{A}}", "{{A}}.attr", "{{A}}()", "({{A}}, {{A}})", "{{A}} if cond else {{B}}",
              "[{{B}}, {{A}}]", "None", "{{A}} - {{B}}", "-{{A}}", "{{A}}[{{B}}]", "k(a={{A}})", "{{A}} and {{B}}", "{{B}}"]
STMT_REPLS = ["pass", "{{A}} = {{B}}", "log({{A}})\nlog2({{B}})", "if {{A}}:\n    go({{B}})", "return {{A}}", "x_new = ({{A}}, {{B}})"]


# --------------------------------------------------------------------------------- worker side
def w_sub(arg):
    from .. import hooks
    from ..ref import matcher, sched_model, span, subst

    m = hooks.mods()
    pm = m["pattern_matching"]
    hooks.install_sched_hooks()
    R = hooks.REC
    res = {"cases": 0, "with_occurrence": 0, "applied": 0, "rolled_back": 0, "skipped_undefined": 0, "violations": [],
           "nontrivial": [], "samples": [], "trees_compared": 0, "self_subst": 0, "count_limited": 0, "returned_count_differs": 0,
           "ignored_lines_kept": 0, "untouched_lines_checked": 0}
    for case0 in arg["cases"]:
        variants = [case0]
        if case0.get("self_subst") and not re.search(r"\{\{\.\.\.", case0["pattern"]) and not re.search(r"\{\{\w+[?*+]\}\}", case0["pattern"]) \
                and case0["repl"] != case0["pattern"]:
            variants.append(dict(case0, repl=case0["pattern"], self_subst=False, is_self=True))
        for case in variants:
            _analyse(case, res, pm, R, matcher, sched_model, span, subst)
    return res


def _analyse(case, res, pm, R, matcher, sched_model, span, subst):
    if True:
        pattern, repl, source, count = case["pattern"], case["repl"], case["source"], case.get("count", 0)
        if case.get("is_self"):
            res["self_subst"] += 1

        def viol(kind, detail):
            if len(res["violations"]) < 60:
                res["violations"].append({"kind": kind, "input": source, "detail": dict(detail, pattern=pattern, repl=repl, count=count),
                                          "replay": {"fn": "harness.checks.c14:w_sub", "arg": {"cases": [case]}}})

        try:
            ref = matcher.Pattern(pattern)
            tree = ast.parse(source)
            occ = ref.search(tree)
            by_span = {}
            for nodes, e in occ:
                by_span.setdefault(span.nodes_span(source, nodes), (nodes, e))
            if ref.has_toplevel_quantifier():
                raise matcher.Undefined("top-level quantifier (known C12 finding)")
        except (matcher.Undefined, SyntaxError, ValueError, RecursionError):
            res["skipped_undefined"] += 1
            return
        R.reset()
        try:
            new, n = pm.subn(pattern, repl, source, count)
        except ValueError as exc:
            if "Unfilled" in str(exc):
                res["skipped_undefined"] += 1
                return
            viol("sub_raised", {"exc": f"{type(exc).__name__}: {exc}"})
            return
        except Exception as exc:
            viol("sub_raised", {"exc": f"{type(exc).__name__}: {exc}"})
            return
        res["cases"] += 1
        p0 = next((p for p in R.passes if p.get("scheduled") is not None), None)
        sched = [(tuple(s["range"]), s["new"]) for s in (p0["scheduled"] if p0 else [])]
        yielded = p0["yielded"] if p0 else []
        S = sorted({r for r, _ in sched})
        if not occ:
            if new != source:
                viol("changed_without_occurrence", {"result": new})
            return
        res["with_occurrence"] += 1
        res["nontrivial"].append(env.digest("\0".join([pattern, repl, source, str(count)])))
        ign = sched_model.ignored_line_ranges(source)
        # (2) only matches are rewritten
        for r in S:
            if r not in by_span:
                viol("rewrote_something_that_is_not_a_match", {"range": r, "text": source[r[0]:r[1]][:200], "reference": sorted(by_span)})
        # (3) non-overlapping
        for i in range(len(S)):
            for j in range(i + 1, len(S)):
                if sched_model.overlaps(S[i], S[j]):
                    viol("overlapping_replacements", {"a": S[i], "b": S[j]})
        # (4) nothing skipped without a reason
        limited = count > 0 and len(yielded) >= count
        if limited:
            res["count_limited"] += 1
        for r in by_span:
            if r in S:
                continue
            if any(sched_model.overlaps(r, s) or (r[0] == r[1] == s[0]) for s in S) or sched_model.touches_ignored(r, ign) or limited:
                continue
            if any(sched_model.overlaps(r, o) for o in by_span if o != r):
                continue  # overlapping occurrences: the statement does not say which one wins
            viol("occurrence_skipped", {"range": r, "text": source[r[0]:r[1]][:200], "applied": S})
        # (5) count bounds the replacements
        if count > 0 and len(S) > count:
            viol("count_exceeded", {"applied": len(S)})
        if n != len(S):
            res["returned_count_differs"] += 1
        # (8) ignored lines verbatim
        for a, b in ign:
            line = source[a:b]
            if line not in new:
                viol("ignored_line_rewritten", {"line": line, "result": new})
            else:
                res["ignored_lines_kept"] += 1
        # (6) tree of the result
        cand = p0["do"][-1]["out"] if p0 and p0["do"] else source
        rolled_back = bool(S) and cand is not None and not sched_model.valid(cand)
        if bool(S) and cand is not None and not rolled_back and new == source and sched_model.compiles(source) and not sched_model.compiles(cand):
            rolled_back = True  # the candidate parses but is not code Python will run, the input was: rolled back under the same clause
        if rolled_back:
            res["rolled_back"] += 1
            if new != source:
                viol("unparsable_candidate_not_rolled_back", {"candidate": cand, "result": new})
            return
        try:
            repls = [(by_span[r][0], subst.instantiate(repl, by_span[r][1])) for r in S if r in by_span]
            expected = subst.replace_nodes(source, repls)
            want = subst.normalised_dump(expected)
        except (matcher.Undefined, SyntaxError, ValueError, RecursionError, KeyError):
            res["skipped_undefined"] += 1
            want = None
        if want is not None:
            res["trees_compared"] += 1
            try:
                got = subst.normalised_dump(new)
            except SyntaxError:
                got = "<result does not parse>"
            if got != want:
                textual = source
                glued = False  # pasting must not fuse the replacement with a neighbouring token (`sum` + `list(y)`): that is not a precedence question
                word = lambda ch: ch.isalnum() or ch == "_"  # noqa: E731
                for r in sorted(S, reverse=True):
                    if r in by_span:
                        piece = subst.textual_instantiation(repl, by_span[r][1])
                        if piece and ((r[0] > 0 and word(source[r[0] - 1]) and word(piece[0])) or (r[1] < len(source) and word(source[r[1]]) and word(piece[-1]))):
                            glued = True
                        textual = textual[:r[0]] + piece + textual[r[1]:]
                try:
                    explained = subst.normalised_dump(textual) == got and not glued
                except (SyntaxError, ValueError):
                    explained = False
                viol("tree_differs_from_reference_substitution", {
                    "applied_texts": [source[a:b][:120] for a, b in S], "self_substitution": bool(case.get("is_self") or repl == pattern),
                    "result": new, "expected_text": ast.unparse(expected), "explained_by_textual_instantiation": explained,
                    "bindings": {k: v[0] for r in S if r in by_span for k, v in by_span[r][1].items()}})
            elif S:
                res["applied"] += 1
                if len(res["samples"]) < 1:
                    res["samples"].append({"pattern": pattern, "repl": repl, "count": count, "source": source[:300], "result": new[:300], "applied_ranges": S})
        # (7) lines outside the replaced spans are unchanged and keep their order
        touched = set()
        starts = span.line_starts(source) + [len(source)]
        for a, b in S:
            for k in range(len(starts) - 1):
                if starts[k] < max(b, a + 1) and a < starts[k + 1]:
                    touched.add(k)
        pos = 0
        lines = span.lines(source)
        for k, line in enumerate(lines):
            if k in touched:
                continue
            res["untouched_lines_checked"] += 1
            idx = new.find(line, pos)
            while idx >= 0 and not _at_line_start(new, idx):
                idx = new.find(line, idx + 1)
            if idx < 0:
                if line.strip() or line in ("\n", "\r\n"):
                    if line.strip():
                        viol("untouched_line_changed", {"line": line, "lineno": k + 1, "result": new})
                        break
                continue
            pos = idx + len(line)


def _at_line_start(text, idx):
    return idx == 0 or text[idx - 1] in "\n\r"


def w_cli(arg):
    """`python -m pyrefact.pattern_matching replace` writes what sub() returns."""
    import os
    import pathlib
    import shutil
    import subprocess
    import sys
    import tempfile

    from .. import hooks

    pm = hooks.mods()["pattern_matching"]
    res = {"cli_runs": 0, "violations": [], "nontrivial": []}
    tmp = pathlib.Path(tempfile.mkdtemp(prefix="c14cli-"))
    try:
        for case in arg["cases"]:
            path = tmp / "t.py"
            path.write_text(case["source"], encoding="utf-8")
            before = path.read_text()
            try:
                want = pm.sub(case["pattern"], case["repl"], before)
            except Exception:
                continue
            proc = subprocess.run([sys.executable, "-m", "pyrefact.pattern_matching", "replace", case["pattern"], case["repl"], str(path)],
                                  capture_output=True, text=True, timeout=120)
            res["cli_runs"] += 1
            after = path.read_text()
            if want != before:
                res["nontrivial"].append(env.digest(case["pattern"] + case["repl"] + before))
            if case["repl"].startswith("-") or case["pattern"].startswith("-"):
                continue  # argparse would read it as an option: not a CLI usage the tool supports
            if proc.returncode != 0 or after != want:
                res["violations"].append({"kind": "cli_replace_differs_from_sub", "input": case["source"],
                                          "detail": {"pattern": case["pattern"], "repl": case["repl"], "file_after": after, "sub": want, "rc": proc.returncode,
                                                     "stderr": proc.stderr[-300:]},
                                          "replay": {"fn": "harness.checks.c14:w_cli", "arg": {"cases": [case]}}})
    finally:
        shutil.rmtree(tmp, ignore_errors=True)
    return res


# --------------------------------------------------------------------------------- parent side
def make_replacement(pattern, r):
    names = sorted(set(re.findall(r"\{\{(\w+)\}\}", pattern)))
    try:
        from ..ref import matcher

        kind = matcher.Pattern(pattern).kind
    except Exception:
        return None
    if r.random() < 0.15:
        return pattern
    pool_ = EXPR_REPLS if kind == "expr" else STMT_REPLS
    t = r.choice(pool_)
    if ("{{A}}" in t or "{{B}}" in t) and not names:
        t = "None" if kind == "expr" else "pass"
    a = r.choice(names) if names else "A"
    b = r.choice(names) if names else "B"
    return t.replace("{{A}}", "{{" + a + "}}").replace("{{B}}", "{{" + b + "}}")


def w_gen(arg):
    """Generate (pattern, repl, source, count) cases from sources by abstraction (runs in workers: needs ref spans)."""
    out = []
    for item in arg["items"]:
        source = item["text"]
        try:
            tree = ast.parse(source)
        except (SyntaxError, ValueError):
            continue
        r = env.rng(PROP, "gen", item["id"])
        if r.random() < 0.3:
            lines = source.split("\n")
            k = r.randrange(len(lines))
            if lines[k].strip() and not lines[k].rstrip().endswith(("\\", '"""', "'''")) and "#" not in lines[k]:
                lines[k] += "  # pyrefact: ignore"
                cand = "\n".join(lines)
                try:
                    ast.parse(cand)
                    source = cand
                    tree = ast.parse(source)
                except SyntaxError:
                    pass
        for k in range(item.get("n", 3)):
            p = c12._abstract(source, tree, r) if k % 3 else c12._abstract_sequence(source, tree, r)
            if not p or "{{..." in p and r.random() < 0.5:
                continue
            rp = make_replacement(p, r)
            if rp is None:
                continue
            out.append({"pattern": p, "repl": rp, "source": source, "count": r.choice([0, 0, 0, 1, 2]), "self_subst": r.random() < 0.3})
        for gp in r.sample(c13.GENERIC_PATTERNS, 2):
            rp = make_replacement(gp, r)
            if rp:
                out.append({"pattern": gp, "repl": rp, "source": source, "count": r.choice([0, 0, 1, 3]), "self_subst": True})
    return out


def main() -> int:
    from .. import pool
    from ..gen import corpus

    v = verdict.Verdict(PROP)
    thorough = env.tier() == "thorough"
    r = env.rng(PROP, "main")
    srcs = [("base%d" % i, b) for i, b in enumerate(c13.BASES)]
    ex = [(o, t) for o, t in corpus.repo_examples(2) if t.isascii() or r.random() < 0.5]
    srcs += ex if thorough else r.sample(ex, 250)
    if thorough:
        srcs += corpus.stdlib_files(6000, limit=60)
    import textwrap

    items = [{"id": sid, "text": textwrap.dedent(t), "n": 6 if thorough else 3} for sid, t in srcs]
    hostile = [{"pattern": p, "repl": rp, "source": s, "count": c, "self_subst": True} for p, rp, s, c in HOSTILE]
    tot, tot_cli = {}, {}
    with pool.Pool() as p:
        verdict.run_witnesses(v, p)
        gen = p.map("harness.checks.c14:w_gen", [{"items": items[i:i + 8]} for i in range(0, len(items), 8)], cpu_s=600)
        verdict.pool_failures(v, gen, "C14 generation")
        cases = list(hostile)
        for g in gen:
            if g.get("status") == "ok":
                cases.extend(g["value"])
        reps = p.map("harness.checks.c14:w_sub", [{"cases": cases[i:i + 10]} for i in range(0, len(cases), 10)], cpu_s=900)
        verdict.pool_failures(v, reps, "C14 sub")
        for rep in reps:
            if rep.get("status") == "ok":
                c13._merge(tot, rep["value"])
        cli_cases = hostile[::2] if not thorough else hostile
        reps = p.map("harness.checks.c14:w_cli", [{"cases": cli_cases[i:i + 2]} for i in range(0, len(cli_cases), 2)], cpu_s=600)
        verdict.pool_failures(v, reps, "C14 cli")
        for rep in reps:
            if rep.get("status") == "ok":
                c13._merge(tot_cli, rep["value"])
    v.extend(tot.get("violations", []))
    v.extend(tot_cli.get("violations", []))
    if tot.get("trees_compared", 0) == 0:
        v.inconclusive_because("no substitution result was compared with the reference tree")
    cov = {
        "evaluations": tot.get("cases", 0) + tot_cli.get("cli_runs", 0),
        "distinct_nontrivial": len(set(tot.get("nontrivial", []))),
        "rule": "a case = one subn(pattern, repl, source, count) call observed through H-sched; non-trivial = the reference search finds "
                "at least one occurrence; distinct by digest of the four arguments",
        "samples": tot.get("samples", [])[:3] or [{"note": "none"}],
        "monitors": {k: tot.get(k) for k in ("cases", "with_occurrence", "applied", "trees_compared", "rolled_back", "count_limited",
                                             "self_subst", "ignored_lines_kept", "untouched_lines_checked", "skipped_undefined", "returned_count_differs")},
        "cli": {"runs": tot_cli.get("cli_runs", 0)},
    }
    return v.finish(cov, assumptions=[
        "which of several overlapping occurrences is applied is left open by the statement: the applied set is read from the scheduler log",
        "trees are compared after an unparse/parse round trip; a pass whose candidate text does not parse is a rollback (C10), not a C14 event",
    ])


def replay(rec) -> int:
    return verdict.generic_replay(PROP, rec)
