"""C15 - compile-time constant evaluation agrees with Python.

Monitors: (a) core.literal_value(e) beside eval(e) - Python itself is the reference - under an effect sanitizer
(audit hook + stdout capture); values that may depend on the process (hash/id/...) are re-evaluated in a worker
with another PYTHONHASHSEED; (b) consumer level: programs whose conditions are such expressions go through the
folding rules and format_code and are judged by the execution oracle.
"""
from __future__ import annotations

import ast
import itertools

from .. import env, verdict

PROP = "C15"

ATOMS = ["0", "1", "-1", "2", "True", "False", "None", "0.0", "1.5", "''", "'a'", "'ab'", "()", "(1,)", "[]", "[0]",
         "{}", "{1: 2}", "{1}", "b''", "b'a'", "...", "3", "(1, 2)", "[1, 2]"]
UNARY = ["not ", "-", "+", "~"]
BINOPS = ["+", "-", "*", "/", "//", "%", "**", "<<", ">>", "|", "&", "^", "@"]
CMPOPS = ["==", "!=", "<", "<=", ">", ">=", "in", "not in"]
SINGLETONS = ["None", "True", "False", "..."]
CALL_ARGS = [[], ["0"], ["1"], ["'a'"], ["[1, 2]"], ["(1, 2)"], ["'a'", "1"], ["[3, 1, 2]"], ["0", "1"], ["'f'", "'w'"],
             ["'11'"], ["-1"], ["[]"], ["1.5"], ["'1+1'"], ["{1: 2}"], ["2", "3"]]
METHOD_CALLS = ["''.join(['a', 'b'])", "'a'.upper()", "(1).bit_length()", "'a b'.split()", "'abc'.find('c')", "'x'.join(())",
                "'%s' .format(1)", "'{}'.format(1)", "b'a'.decode()", "'a'.encode()", "(1.5).is_integer()", "'a'.isalpha()",
                "'abc'.replace('a', 'b')", "'a'.center(5)", "(255).to_bytes(1, 'big')", "'a'.nosuchmethod()", "'a'.join(1)",
                "(1).real", "'abc'.startswith('a')", "' a '.strip()", "'a,b'.partition(',')", "(2).__pow__(3)"]
KEYWORD_CALLS = ["int('11', base=2)", "sorted([1, 2], reverse=True)", "dict(a=1)", "max([1, 2], key=lambda v: -v)", "print(1, end='')",
                 "round(1.256, ndigits=1)", "sum([1, 2], start=10)", "enumerate([1], start=1)", "min([], default=3)", "str(b'a', encoding='utf8')",
                 "list(*[[1]])", "dict(**{'a': 1})", "int(*['2'])", "max(*[1, 2])",
                 # keyword and starred arguments of methods of literals
                 "'a,b,c'.split(',', maxsplit=1)", "'a,b,c'.rsplit(sep=',', maxsplit=1)", "(1).to_bytes(2, byteorder='little')", "(1).to_bytes(length=2, byteorder='big')",
                 "'{k}'.format(k=1)", "'{}-{k}'.format(0, k=2)", "b'\\xff'.decode('ascii', errors='replace')", "'\u00e9'.encode('ascii', errors='ignore')", "'a\\nb'.splitlines(keepends=True)",
                 "'abc'.replace('a', 'b', *[0])", "' a '.strip(*[' ', ])", "'a-b'.split(*['-'])", "'x'.join(**{})", "int.from_bytes(b'\\x00\\x01', byteorder='little')",
                 "(1.5).__round__(ndigits=0)", "'a b'.split(sep=None, maxsplit=0)", "'Ab'.center(4, *['*'])", "'%s' .format(*[1])", "'a'.encode(encoding='utf-16')"]
PROCESS_DEPENDENT = ["hash('a')", "id(1)", "hash('a') % 2 == 0", "id([]) > 0", "hash((1, 'b'))", "repr(object)", "hash(None)",
                     "id(None) == id(None)", "dir()", "vars()", "locals()", "globals()", "hash(1.5)", "len(dir())", "hash('') == 0",
                     "str(hash('x'))", "set('abc')", "list(set('abc'))", "list({'a', 'b', 'c'})", "sorted(set('cab'))", "next(iter({'x', 'y'}))"]
EFFECTFUL = ["print(1)", "print('hello') or 1", "exit()", "quit()", "input()", "open('c15_probe_file', 'w')", "breakpoint()", "help()",
             "exec('import os')", "eval('1')", "eval('print(5)')", "__import__('os')", "compile('1', 'f', 'eval')", "copyright()",
             "license()", "credits()", "open('/nonexistent/x')", "delattr(1, 'a')", "setattr(1, 'a', 2)", "getattr(1, 'real')",
             "memoryview(b'a')", "iter([1])", "range(3)", "zip()", "map(str, [1])", "object()", "type('A', (), {})", "super()",
             "classmethod(1)", "property()", "globals().clear()", "vars().update(a=1)", "exit(0) or 1", "print()", "__build_class__()",
             "list(range(3))", "len('abc')", "abs(-2)", "bool([])", "str(1)", "int('x')", "float('nan')", "float('nan') == float('nan')",
             "ord('a')", "chr(97)", "divmod(1, 0)", "pow(2, -1)", "pow(0, -1)", "min([])", "sum(['a'])", "sorted([1, 'a'])", "tuple(1)",
             "isinstance(1, int)", "issubclass(bool, int)", "callable(len)", "all([])", "any([0])", "round(0.5)", "round(2.5)", "bin(3)",
             "format(1, 'x')", "ascii('ü')", "bytes(2)", "bytearray(b'a')", "complex(1, 2)", "frozenset([1])", "slice(1)", "reversed([1, 2])",
             "next(iter([]))", "aiter(1)", "anext(1)", "1 if print(2) else 3", "[print(1)]", "(lambda: 1)()", "[i for i in [1, 2]]",
             "[i for i in range(2) if i]", "{i: i for i in [1]}", "sum(i for i in [1, 2])", "f'{1}'", "f'{print(3)}'", "(x := 1)",
             "[1, 2][0]", "[1, 2][5]", "{1: 2}[1]", "{1: 2}[3]", "'abc'[1:]", "'abc'[::0]", "(1, 2)[-1]", "[][0]", "1 .real", "(1).imag",
             "*[1]", "[*[1, 2]]", "{**{1: 2}}", "(1, *[2])", "{*[1]}"]
BOMBS = []


def iterator_groups():
    """Expressions that build the same one-shot iterator under different consumers, evaluated one after the other in one process: a value remembered from
    an earlier evaluation (a memo holding the live, by then exhausted iterator) gives the later ones a wrong answer."""
    groups = []
    for it in ["reversed([1, 2])", "iter([1, 2])", "zip([1], [2])", "enumerate(['a'])", "map(str, [1])", "filter(None, [0, 1])", "reversed((3,))", "iter('ab')", "zip('ab', 'cd')"]:
        groups.append([f"list({it})", f"any({it})", f"tuple({it})", f"bool(list({it}))", f"len(list({it}))", f"sorted({it}) == []", f"all({it})", f"list({it}) == list({it})",
                       f"[list({it}), list({it})]", f"not tuple({it})", f"sum(1 for _ in {it})"])
    return groups


def is_singleton(a):
    return a in SINGLETONS


def depth1():
    out = []
    for a in ATOMS:
        out.append(a)
        for u in UNARY:
            out.append(f"{u}{a}" if a[0] != "-" else f"{u}({a})")
    for a, b in itertools.product(ATOMS, repeat=2):
        for op in BINOPS:
            out.append(f"({a}) {op} ({b})")
        for op in CMPOPS:
            out.append(f"({a}) {op} ({b})")
        for op in ("and", "or"):
            out.append(f"({a}) {op} ({b})")
    for a, b in itertools.product(SINGLETONS, repeat=2):
        out.append(f"{a} is {b}")
        out.append(f"{a} is not {b}")
    return out


def builtin_calls(names):
    out = []
    for n in names:
        for args in CALL_ARGS:
            out.append(f"{n}({', '.join(args)})")
    return out


def random_deeper(n, stream):
    out = []
    for i in range(n):
        r = env.rng(PROP, stream, i)

        def gen(d):
            if d == 0 or r.random() < 0.25:
                return r.choice(ATOMS)
            k = r.random()
            if k < 0.30:
                return f"({gen(d - 1)}) {r.choice(BINOPS)} ({gen(d - 1)})"
            if k < 0.50:
                ops = [r.choice(CMPOPS) for _ in range(r.choice([1, 1, 2]))]
                parts = [f"({gen(d - 1)})"]
                for op in ops:
                    parts += [op, f"({gen(d - 1)})"]
                return " ".join(parts)
            if k < 0.65:
                return f"({gen(d - 1)}) {r.choice(['and', 'or'])} ({gen(d - 1)})" + (f" {r.choice(['and', 'or'])} ({gen(d - 1)})" if r.random() < 0.3 else "")
            if k < 0.75:
                return f"{r.choice(UNARY)}({gen(d - 1)})"
            if k < 0.85:
                return f"({gen(d - 1)}) if ({gen(d - 1)}) else ({gen(d - 1)})"
            if k < 0.95:
                fn = r.choice(["len", "bool", "int", "str", "abs", "sum", "max", "min", "sorted", "list", "tuple", "any", "all", "float", "repr", "set", "round"])
                return f"{fn}({gen(d - 1)})"
            return r.choice(METHOD_CALLS)

        out.append(gen(r.choice([2, 2, 3, 3, 4])))
    return out


# --------------------------------------------------------------------------------- worker side
from ..effects import observed  # noqa: E402  (effect sanitizer shared with other checks)


def _canon(val, depth=0):
    """repr with sets printed in a canonical order (set equality, not iteration order, is the value)."""
    if depth < 6:
        if isinstance(val, (set, frozenset)):
            return type(val).__name__ + "{" + ", ".join(sorted(_canon(v, depth + 1) for v in val)) + "}"
        if isinstance(val, (list, tuple)):
            return type(val).__name__ + "[" + ", ".join(_canon(v, depth + 1) for v in val) + "]"
        if isinstance(val, dict):
            return "dict{" + ", ".join(f"{_canon(k, depth + 1)}: {_canon(v, depth + 1)}" for k, v in val.items()) + "}"
    return repr(val)


def describe(val):
    try:
        if isinstance(val, (set, frozenset, list, tuple, dict)):
            return f"{type(val).__module__}.{type(val).__qualname__}:{_canon(val)[:300]}"
        if hasattr(val, "__next__"):  # iterators have no value of their own: compare what they produce
            return f"{type(val).__module__}.{type(val).__qualname__}:iter{repr(list(val))[:300]}"
        return f"{type(val).__module__}.{type(val).__qualname__}:{repr(val)[:300]}"
    except Exception as exc:
        return f"<unreprable {type(val).__name__}>"


def w_eval(arg):
    """Reference side only (runs under another PYTHONHASHSEED): [(expr)] -> [description or raise]."""
    out = []
    for e in arg["exprs"]:
        st, val, eff = observed(lambda: eval(compile(e, "<c15>", "eval"), {"__name__": "c15ref"}))
        out.append([st, describe(val) if st == "value" else None, eff])
    return out


def w_literal(arg):
    from .. import hooks

    core = hooks.mods()["core"]
    res = {"exprs": 0, "values": 0, "unknown": 0, "violations": [], "needs_cross_process": [], "nontrivial": 0, "samples": [],
           "ref_raises_impl_unknown": 0, "ref_effect_impl_unknown": 0}
    import os
    for e in arg["exprs"]:
        try:
            node = ast.parse(e, mode="eval").body
        except (SyntaxError, ValueError, MemoryError, RecursionError):
            continue
        res["exprs"] += 1
        st, val, eff = observed(lambda: core.literal_value(node))
        for leftover in ("c15_probe_file",):
            if os.path.exists(leftover):
                try:
                    os.remove(leftover)
                except OSError:
                    pass

        def viol(kind, detail):
            if len(res["violations"]) < 80:
                whole = {"exprs": arg["exprs"], "replay_whole": True} if arg.get("replay_whole") else {"exprs": [e]}  # history-dependent groups replay as a whole
                res["violations"].append({"kind": kind, "input": e, "detail": detail, "replay": {"fn": "harness.checks.c15:w_literal", "arg": whole}})
            else:
                res["truncated"] = res.get("truncated", 0) + 1

        if eff:
            viol("effect_while_analysing", {"effects": eff, "status": st})
        if st == "raise:ValueError":
            res["unknown"] += 1
            continue
        if st.startswith("raise:"):
            viol("literal_value_raised", {"exc": st[6:]})
            continue
        res["values"] += 1
        res["nontrivial"] += 1
        rst, rval, reff = observed(lambda: eval(compile(e, "<c15>", "eval"), {"__name__": "c15ref"}))
        for leftover in ("c15_probe_file",):
            if os.path.exists(leftover):
                try:
                    os.remove(leftover)
                except OSError:
                    pass
        got = describe(val)
        if rst != "value":
            viol("value_for_expression_that_raises", {"literal_value": got, "python": rst})
            continue
        if reff:
            viol("value_for_expression_with_effects", {"literal_value": got, "effects": reff})
            continue
        want = describe(rval)
        if got != want:
            if " object at 0x" in want and got.split(" object at 0x")[0] == want.split(" object at 0x")[0]:
                viol("value_is_process_dependent", {"literal_value": got, "python": want})
            else:
                viol("value_differs_from_python", {"literal_value": got, "python": want})
            continue
        if any(isinstance(n, ast.Call) for n in ast.walk(node)) or any(isinstance(n, (ast.Set, ast.SetComp)) for n in ast.walk(node)):
            res["needs_cross_process"].append([e, got])
        if len(res["samples"]) < 2 and len(e) > 12:
            res["samples"].append({"expr": e, "literal_value": got, "python": want})
    return res


TEMPLATES = [
    "if {E}:\n    print('T')\nelse:\n    print('F')\nprint('end')\n",
    "x = 1 if {E} else 2\nprint(x)\n",
    "def t(k):\n    print('t', k)\n    return k\nprint({E} and t(1))\n",
    "def t(k):\n    print('t', k)\n    return k\nprint({E} or t(1))\n",
    "n = 0\nwhile {E}:\n    n += 1\n    print('loop', n)\n    if n > 1:\n        break\nprint('after', n)\n",
    "print([i for i in range(3) if {E}])\n",
    "def f():\n    if {E}:\n        return 'a'\n    return 'b'\nprint(f())\n",
    "def f(v):\n    assert {E}\n    return v\ntry:\n    print(f(3))\nexcept AssertionError:\n    print('assertion')\n",
    "def t(k):\n    print('t', k)\n    return k\nif t(0) or {E}:\n    print('yes')\nelse:\n    print('no')\n",
    "y = 5\nif not ({E}):\n    y = 6\nprint(y)\n",
]
# loops over constant iterables: whether the loop body is entered is a constant question too (an empty lazy iterator is a truthy object)
ITER_TEMPLATES = [
    "def f():\n    for x in {E}:\n        return ('in', x)\n    return 'after'\nprint(f())\n",
    "def f():\n    for x in {E}:\n        print('body', x)\n        break\n    else:\n        return 'exhausted'\n    return 'broke'\nprint(f())\n",
    "def f():\n    while True:\n        for x in {E}:\n            return x\n        break\n    return 'tail'\nprint(f())\n",
]
CONSTANT_ITERABLES = ["[]", "()", "''", "range(0)", "iter([])", "zip()", "zip([], [])", "reversed([])", "map(str, [])", "filter(None, [])", "enumerate([])", "iter(())", "{}.items()", "sorted([])",
                      "[1]", "iter([1])", "zip([1], [2])", "reversed([1, 2])", "map(str, [3])", "filter(None, [0, 4])", "filter(None, [0])", "enumerate('x')", "range(2, 1)", "range(1, 2)", "dict(a=1)",
                      "iter('')", "reversed('')", "zip('ab')", "[[]]", "[None]", "(0,)"]


FOLDING_CONSUMERS = {"fixes.remove_dead_ifs", "fixes.delete_unreachable_code", "fixes.remove_redundant_boolop_values",
                     "symbolic_math.simplify_boolean_expressions", "symbolic_math.simplify_boolean_expressions_symmath",
                     "fixes.delete_pointless_statements", "fixes.remove_redundant_else", "fixes.swap_if_else", "fixes.fix_if_return",
                     "fixes.breakout_common_code_in_ifs", "fixes.early_return", "fixes.early_continue", "symbolic_math.simplify_constrained_range"}


def w_consumer(arg):
    """Programs whose conditions are constant expressions, through the folding rules and format_code, judged by execution."""
    from .. import hooks, oracle_exec

    m = hooks.mods()
    rules = [("fixes", "remove_dead_ifs"), ("fixes", "delete_unreachable_code"), ("fixes", "remove_redundant_boolop_values"),
             ("symbolic_math", "simplify_boolean_expressions"), ("fixes", "delete_pointless_statements"), ("fixes", "fix_if_return"),
             ("fixes", "remove_redundant_else"), ("fixes", "swap_if_else")]
    res = {"programs": 0, "in_class": 0, "steps": 0, "changed": 0, "violations": [], "nontrivial": [], "crashed": 0, "samples": []}
    for case in arg["cases"]:
        prog = case["template"].replace("{E}", case["expr"])
        try:
            ast.parse(prog)
        except (SyntaxError, ValueError, MemoryError):
            continue
        res["programs"] += 1
        base = oracle_exec.run_program(prog)
        if not oracle_exec.in_class(prog, base):
            continue
        res["in_class"] += 1
        outs = []
        for mod, name in rules:
            fn = getattr(m.get(mod), name, None)
            if fn is None:
                continue
            st, val, eff = observed(lambda: fn(prog))
            outs.append((f"{mod}.{name}", st, val, eff))
        st, val, eff = observed(lambda: m["main"].format_code(prog))
        outs.append(("format_code", st, val, eff))
        for rule, st, val, eff in outs:
            res["steps"] += 1

            def viol(kind, detail):
                if len(res["violations"]) < 60:
                    res["violations"].append({"kind": kind, "rule": rule, "input": prog, "detail": dict(detail, expr=case["expr"]),
                                              "replay": {"fn": "harness.checks.c15:w_consumer", "arg": {"cases": [case]}}})

            if eff:
                viol("effect_while_formatting", {"effects": eff})
            if st != "value":
                res["crashed"] += 1
                viol("consumer_raised", {"exc": st})
                continue
            if val == prog:
                continue
            res["changed"] += 1
            res["nontrivial"].append(env.digest(rule + prog))
            after = oracle_exec.run_program(val)
            if not oracle_exec.agrees(base, after):
                detail = {"before_out": base[1][-300:], "before_status": base[0], "after_status": after[0],
                          "after_out": after[1][-300:], "after": val}
                if rule == "format_code":
                    from .. import trace

                    _, _, steps = trace.traced_format(prog)
                    att = trace.attribute(steps)
                    if att:
                        detail["attributed_rule"] = att["rule"]
                        detail["step_before"], detail["step_after"] = att["before"], att["after"]
                        if att["rule"] not in FOLDING_CONSUMERS:
                            # a divergence caused by a rule that does not consume constant evaluation is C01/C02's to report
                            res["divergences_of_other_rules"] = res.get("divergences_of_other_rules", 0) + 1
                            continue
                viol("folded_program_behaves_differently", detail)
            elif len(res["samples"]) < 1:
                res["samples"].append({"rule": rule, "expr": case["expr"], "before": prog, "after": val, "stdout": base[1][:100]})
    return res


# --------------------------------------------------------------------------------- parent side
def main() -> int:
    from .. import pool

    v = verdict.Verdict(PROP)
    thorough = env.tier() == "thorough"
    import builtins as _b

    names = sorted(n for n in dir(_b) if not n.startswith("_") and n[0].islower())
    exprs = depth1() + builtin_calls(names) + METHOD_CALLS + KEYWORD_CALLS + PROCESS_DEPENDENT + EFFECTFUL
    exprs += random_deeper(300000 if thorough else 40000, "deep")
    exprs = list(dict.fromkeys(exprs))
    d1 = len(depth1())
    tot, totc = {}, {}
    scratch = env.scratch()
    with pool.Pool(extra_env={"VERIF_WORKER_CWD": str(scratch / "c15cwd")}) as p, \
            pool.Pool(hashseed=12345, extra_env={"VERIF_WORKER_CWD": str(scratch / "c15ref")}) as pref:
        verdict.run_witnesses(v, p)
        size = 400
        reps = p.map("harness.checks.c15:w_literal", [{"exprs": g, "replay_whole": True} for g in iterator_groups()] +
                     [{"exprs": exprs[i:i + size]} for i in range(0, len(exprs), size)], cpu_s=300)
        verdict.pool_failures(v, reps, "C15 literal")
        for rep in reps:
            if rep.get("status") == "ok":
                _merge(tot, rep["value"])
            elif rep.get("status") in ("crash", "cpu_budget", "watchdog"):
                v.add({"kind": "worker_" + rep["status"], "detail": "a batch of constant expressions killed or hung the worker", "replay": {"fn": "none", "arg": None}})
        # cross-process re-evaluation of call-bearing expressions that were folded to a value
        cross = tot.get("needs_cross_process", [])
        n_cross = 0
        batches = [cross[i:i + 300] for i in range(0, len(cross), 300)]
        reps = pref.map("harness.checks.c15:w_eval", [{"exprs": [e for e, _ in b]} for b in batches], cpu_s=300)
        for b, rep in zip(batches, reps):
            if rep.get("status") != "ok":
                v.count("cross_process_" + str(rep.get("status")))
                continue
            for (e, got), (st, want, eff) in zip(b, rep["value"]):
                n_cross += 1
                if st != "value" or want != got:
                    v.add({"kind": "value_is_process_dependent", "input": e, "detail": {"literal_value": got, "python_in_another_process": want or st},
                           "replay": {"fn": "harness.checks.c15:w_literal", "arg": {"exprs": [e]}}})
        # consumer level
        r = env.rng(PROP, "consumer")
        pool_exprs = depth1()[:] + METHOD_CALLS + KEYWORD_CALLS + EFFECTFUL + random_deeper(2000, "cons")
        n_cons = 12000 if thorough else 1600
        cases = [{"expr": r.choice(pool_exprs), "template": TEMPLATES[i % len(TEMPLATES)]} for i in range(n_cons)]
        cases += [{"expr": e, "template": t} for e in CONSTANT_ITERABLES for t in ITER_TEMPLATES]
        reps = p.map("harness.checks.c15:w_consumer", [{"cases": cases[i:i + 6]} for i in range(0, len(cases), 6)], cpu_s=600)
        verdict.pool_failures(v, reps, "C15 consumer")
        for rep in reps:
            if rep.get("status") == "ok":
                _merge(totc, rep["value"])
    v.extend(tot.get("violations", []))
    v.extend(totc.get("violations", []))
    if tot.get("values", 0) == 0:
        v.inconclusive_because("literal_value never returned a value")
    if totc.get("changed", 0) == 0:
        v.inconclusive_because("no consumer rule changed any program")
    cov = {
        "evaluations": tot.get("exprs", 0) + totc.get("steps", 0),
        "distinct_nontrivial": tot.get("nontrivial", 0) + len(set(totc.get("nontrivial", []))),
        "rule": "expressions are distinct texts; non-trivial = literal_value returned a value (so it was compared with eval); "
                "consumer steps non-trivial = the rule changed the program (so before/after were executed)",
        "samples": (tot.get("samples", [])[:3] + totc.get("samples", [])[:2]) or [{"note": "none"}],
        "literal_value": {"expressions": tot.get("exprs"), "folded_to_value": tot.get("values"), "unknown": tot.get("unknown"),
                          "cross_process_rechecked": n_cross, "depth1_enumerated": d1, "depth1_exhaustive": True},
        "consumers": {k: totc.get(k) for k in ("programs", "in_class", "steps", "changed", "crashed")},
        "exhaustive": False,
    }
    return v.finish(cov, assumptions=[
        "identity tests between non-singleton literals are excluded, as the statement says",
        "reference = eval() of the same text in CPython 3.12; process-dependent values are re-evaluated under another PYTHONHASHSEED",
    ])


def _merge(total, part):
    for k, val in part.items():
        if isinstance(val, bool):
            continue
        if isinstance(val, int):
            total[k] = total.get(k, 0) + val
        elif isinstance(val, list):
            total.setdefault(k, []).extend(val)


def replay(rec) -> int:
    return verdict.generic_replay(PROP, rec)
