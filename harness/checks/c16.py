"""C16 - code is treated as unreachable or pointless only when it really is.

Oracle: execution under all valuations. Statement shapes are wrapped in `def f_i(c1, c2, c3, it)` with effectful
probes t(k) after every statement; the observable trace (probe ids, return value, exception class) of the function
before and after each consumer rule must be identical for every valuation of the unknowns. The analyses is_blocking /
has_side_effect are also probed directly, in their sound direction only.
"""
from __future__ import annotations

import ast
import itertools

from .. import env, verdict

PROP = "C16"
RULES = [("fixes", "delete_unreachable_code"), ("fixes", "delete_pointless_statements"), ("fixes", "remove_redundant_else"),
         ("fixes", "swap_if_else"), ("fixes", "breakout_common_code_in_ifs"), ("fixes", "remove_dead_ifs"), ("fixes", "early_return"),
         ("fixes", "early_continue"), ("fixes", "undefine_unused_variables"), ("fixes", "remove_redundant_boolop_values"),
         ("fixes", "replace_with_filter"), ("fixes", "fix_if_return")]
PRELUDE = '''TRACE = []
class Stop(Exception):
    pass
def t(k):
    TRACE.append(k)
    if len(TRACE) > 40:
        raise Stop()
    return k
class cm:
    def __init__(self, k):
        self.k = k
    def __enter__(self):
        t(self.k)
        return self
    def __exit__(self, *exc):
        t(self.k + 1)
        return False
class quiet(cm):
    def __exit__(self, *exc):
        t(self.k + 1)
        return exc[0] is not None and issubclass(exc[0], (ValueError, AssertionError))
def helper_if(c):
    if c:
        t(91)
        return 1
    else:
        t(92)
        return 0
def helper_try(c):
    try:
        t(93)
        return 1
    finally:
        t(94)
def helper_with(c):
    with cm(95):
        return t(97)
def helper_raise(c):
    t(98)
    raise ValueError('h')
def strip():
    t(81)
    return 'a'
def upper():
    t(82)
    return 'b'
def registering(f):
    def wrapper(*a):
        t(83)
        return f(*a)
    return wrapper
@registering
def decorated(c):
    return c
def pure(c):
    return c
class Base:
    def __init__(self):
        t(84)
class Derived(Base):
    pass
class Plain:
    pass
class WithNew:
    def __new__(cls):
        t(85)
        return super().__new__(cls)
class Meta(type):
    def __call__(cls):
        t(86)
        return super().__call__()
class ViaMeta(metaclass=Meta):
    pass
class Loud:
    @property
    def p(self):
        return t(87)
    def __add__(self, other):
        return t(88)
    def __eq__(self, other):
        return t(89) == 0
    __hash__ = None
    def __getitem__(self, k):
        return t(71)
    def __str__(self):
        return str(t(72))
    def __len__(self):
        return t(73) * 0
    def __contains__(self, k):
        return t(74) == 0
    def __neg__(self):
        return t(75)
    def __bool__(self):
        return t(76) == 0
    def __format__(self, spec):
        return str(t(77))
    def __getattr__(self, name):
        return t(78)
    def __iter__(self):
        return iter([t(79)])
loud = Loud()
'''
CONDS = ["True", "False", "0", "1", "c1", "not c1", "c2", "t(7)", "not t(8)", "c1 and c2", "None", "[]", "'a'"]
VALUATIONS = [dict(c1=a, c2=b, c3=c, it=list(i)) for a in (False, True) for b in (False, True) for c in (False, True) for i in ([], [1], [1, 2])]


class Gen:
    """Shape generator; every probe gets a fresh id so that traces identify statements."""

    def __init__(self, r=None):
        self.r = r
        self.k = 10

    def probe(self):
        self.k += 1
        return f"t({self.k})"

    def simple(self, kind, in_loop):
        if kind == "probe":
            return [self.probe()]
        if kind == "return":
            self.k += 1
            return [f"return 'r{self.k}'"]
        if kind == "raise":
            return ["raise ValueError('v')"]
        if kind == "break":
            return ["break"] if in_loop else [self.probe()]
        if kind == "continue":
            return ["continue"] if in_loop else [self.probe()]
        if kind == "assert_false":
            return ["assert False"]
        if kind == "assert_true":
            return ["assert True"]
        if kind == "assert_unknown":
            return ["assert c3"]
        if kind == "assert_zero":
            return ["assert 0, 'm'"]
        if kind == "pass":
            return ["pass"]
        raise ValueError(kind)

    def indent(self, lines):
        return ["    " + l for l in lines]

    def block(self, stmts):
        return self.indent(stmts or ["pass"])

    def compound(self, kind, cond, body, orelse=None, extra=None):
        if kind == "if":
            out = [f"if {cond}:"] + self.block(body)
            if extra is not None:
                out += [f"elif {extra[0]}:"] + self.block(extra[1])
            if orelse is not None:
                out += ["else:"] + self.block(orelse)
            return out
        if kind == "while":
            out = [f"while {cond}:"] + self.block(body)
            if orelse is not None:
                out += ["else:"] + self.block(orelse)
            return out
        if kind == "for":
            out = [f"for _x in {cond}:"] + self.block(body)
            if orelse is not None:
                out += ["else:"] + self.block(orelse)
            return out
        if kind == "with":
            self.k += 2
            return [f"with cm({self.k - 1}):"] + self.block(body)
        if kind == "with_quiet":  # a context manager that swallows ValueError / AssertionError (like contextlib.suppress)
            self.k += 2
            return [f"with quiet({self.k - 1}):"] + self.block(body)
        if kind == "try_except":
            out = ["try:"] + self.block(body) + ["except ValueError:"] + self.block(orelse if orelse is not None else [self.probe()])
            return out
        if kind == "try_finally":
            return ["try:"] + self.block(body) + ["finally:"] + self.block(orelse if orelse is not None else [self.probe()])
        if kind == "try_full":
            return ["try:"] + self.block(body) + ["except ValueError:"] + self.block([self.probe()]) + ["else:"] + self.block(orelse if orelse is not None else [self.probe()]) + ["finally:"] + self.block([self.probe()])
        raise ValueError(kind)


SIMPLE = ["probe", "return", "raise", "break", "continue", "assert_false", "assert_unknown", "pass", "assert_zero", "assert_true"]
FOR_ITERS = ["it", "[]", "[1, 2]", "range(0)", "range(2)", "()", "(1,)", "[c1]", "range(c1)", "iter([])", "zip()", "reversed([])", "iter([1, 2])", "zip([1], [2])", "map(str, [])", "filter(None, [0])"]


def enumerated_shapes():
    """Depth <= 2: outer construct x condition x inner statement(s), each followed by an observable tail."""
    shapes = []

    def add(label, build):
        g = Gen()
        lines = build(g)
        shapes.append((label, lines + [g.probe(), "return 'end'"]))

    inner_specs = []
    for s in SIMPLE:
        inner_specs.append((s, None))
    for s in ("return", "raise", "break", "continue", "probe", "assert_false"):
        for c in ("c2", "True", "False", "not c2"):
            inner_specs.append((f"if {c}: {s}", (c, s, None)))
    for a, b in itertools.product(("return", "raise", "break", "continue", "probe"), repeat=2):
        inner_specs.append((f"if c2: {a} else: {b}", ("c2", a, b)))

    def inner(g, spec, in_loop):
        name, nested = spec
        if nested is None:
            return g.simple(name, in_loop)
        c, a, b = nested
        return g.compound("if", c, g.simple(a, in_loop), g.simple(b, in_loop) if b else None)

    for spec in inner_specs:
        for cond in CONDS[:9]:
            for tail in (False, True):
                add(f"if {cond}: [{spec[0]}]" + (" +probe" if tail else ""),
                    lambda g, spec=spec, cond=cond, tail=tail: g.compound("if", cond, inner(g, spec, False) + ([g.probe()] if tail else [])))
            add(f"if {cond}: [{spec[0]}] else: probe",
                lambda g, spec=spec, cond=cond: g.compound("if", cond, inner(g, spec, False), [g.probe()]))
            add(f"if {cond}: probe else: [{spec[0]}]",
                lambda g, spec=spec, cond=cond: g.compound("if", cond, [g.probe()], inner(g, spec, False)))
            add(f"if {cond}: [{spec[0]}] else: [{spec[0]}]",
                lambda g, spec=spec, cond=cond: g.compound("if", cond, inner(g, spec, False), inner(g, spec, False)))
            add(f"while {cond}: [{spec[0]}]",
                lambda g, spec=spec, cond=cond: g.compound("while", cond, inner(g, spec, True)))
            add(f"while {cond}: probe; [{spec[0]}]",
                lambda g, spec=spec, cond=cond: g.compound("while", cond, [g.probe()] + inner(g, spec, True)))
            add(f"while {cond}: [{spec[0]}] else: probe",
                lambda g, spec=spec, cond=cond: g.compound("while", cond, inner(g, spec, True), [g.probe()]))
        for it in FOR_ITERS:
            add(f"for in {it}: [{spec[0]}]", lambda g, spec=spec, it=it: g.compound("for", it, inner(g, spec, True)))
            add(f"for in {it}: probe; [{spec[0]}]", lambda g, spec=spec, it=it: g.compound("for", it, [g.probe()] + inner(g, spec, True)))
            add(f"for in {it}: [{spec[0]}] else: probe", lambda g, spec=spec, it=it: g.compound("for", it, inner(g, spec, True), [g.probe()]))
        add(f"with: [{spec[0]}]", lambda g, spec=spec: g.compound("with", None, inner(g, spec, False)))
        add(f"with quiet: [{spec[0]}]", lambda g, spec=spec: g.compound("with_quiet", None, inner(g, spec, False)))
        add(f"with quiet: probe; [{spec[0]}]", lambda g, spec=spec: g.compound("with_quiet", None, [g.probe()] + inner(g, spec, False)))
        add(f"try: [{spec[0]}] except", lambda g, spec=spec: g.compound("try_except", None, inner(g, spec, False)))
        add(f"try: [{spec[0]}] finally", lambda g, spec=spec: g.compound("try_finally", None, inner(g, spec, False)))
        add(f"try: probe finally: [{spec[0]}]", lambda g, spec=spec: g.compound("try_finally", None, [g.probe()], inner(g, spec, False)))
        add(f"try: [{spec[0]}] except else finally", lambda g, spec=spec: g.compound("try_full", None, inner(g, spec, False)))
        add(f"try: raise except: [{spec[0]}]", lambda g, spec=spec: g.compound("try_except", None, ["raise ValueError('x')"], inner(g, spec, False)))
        add(f"[{spec[0]}] at top", lambda g, spec=spec: inner(g, spec, False))
        # a break / continue that belongs to the OUTER loop although it stands inside an inner loop statement (in its else clause), then the statement under test
        for jump in ("break", "continue"):
            for outer in ("[1, 2]", "(1,)", "it"):
                add(f"for {outer}: (for it: probe else: {jump}); [{spec[0]}]",
                    lambda g, spec=spec, jump=jump, outer=outer: g.compound("for", outer, g.compound("for", "it", [g.probe()], [jump]) + inner(g, spec, True)))
                add(f"for {outer}: (while c2: break else: {jump}); [{spec[0]}]",
                    lambda g, spec=spec, jump=jump, outer=outer: g.compound("for", outer, g.compound("while", "c2", ["break"], [jump]) + inner(g, spec, True)))
        # a statement that may raise, then the statement under test, as direct children of a try / with body (the handler falls through to the tail)
        for first in ("assert_unknown", "probe"):
            for kind in ("try_except", "try_full", "try_finally", "with", "with_quiet"):
                add(f"{kind}: {first}; [{spec[0]}]", lambda g, spec=spec, first=first, kind=kind: g.compound(kind, None, g.simple(first, False) + inner(g, spec, False)))
        add(f"try: if c3: raise; [{spec[0]}] except", lambda g, spec=spec: g.compound("try_except", None, g.compound("if", "c3", ["raise ValueError('v')"]) + inner(g, spec, False)))
        for cond in ("c1", "True"):
            add(f"while {cond}: for it: [{spec[0]}]",
                lambda g, spec=spec, cond=cond: g.compound("while", cond, g.compound("for", "it", inner(g, spec, True)) + [g.probe(), "break"]))
            add(f"for it: while {cond}: [{spec[0]}]",
                lambda g, spec=spec, cond=cond: g.compound("for", "it", g.compound("while", cond, inner(g, spec, True)) + [g.probe()]))
            add(f"while {cond}: with: [{spec[0]}]",
                lambda g, spec=spec, cond=cond: g.compound("while", cond, g.compound("with", None, inner(g, spec, True)) + [g.probe(), "break"]))
            add(f"while {cond}: try: [{spec[0]}] finally",
                lambda g, spec=spec, cond=cond: g.compound("while", cond, g.compound("try_finally", None, inner(g, spec, True)) + [g.probe(), "break"]))
    return shapes


def random_shapes(n, stream):
    shapes = []
    for i in range(n):
        r = env.rng(PROP, stream, i)
        g = Gen(r)

        def block(depth, in_loop, n_max=3):
            out = []
            for _ in range(r.randint(1, n_max)):
                out += stmt(depth, in_loop)
            return out

        def stmt(depth, in_loop):
            if depth == 0 or r.random() < 0.35:
                return g.simple(r.choice(SIMPLE + ["probe", "probe"]), in_loop)
            kind = r.choice(["if", "if", "if", "while", "for", "with", "with_quiet", "try_except", "try_finally", "try_full"])
            if kind == "if":
                extra = (r.choice(CONDS), block(depth - 1, in_loop, 2)) if r.random() < 0.25 else None
                return g.compound("if", r.choice(CONDS), block(depth - 1, in_loop, 2), block(depth - 1, in_loop, 2) if r.random() < 0.5 else None, extra)
            if kind == "while":
                return g.compound("while", r.choice(CONDS), block(depth - 1, True, 2), block(depth - 1, in_loop, 1) if r.random() < 0.3 else None)
            if kind == "for":
                return g.compound("for", r.choice(FOR_ITERS), block(depth - 1, True, 2), block(depth - 1, in_loop, 1) if r.random() < 0.3 else None)
            if kind in ("with", "with_quiet"):
                return g.compound(kind, None, block(depth - 1, in_loop, 2))
            # no break/continue in a finally block: inside a loop it swallows every exception, including the probe cap
            second = block(depth - 1, in_loop and kind != "try_finally", 1) if r.random() < 0.5 else None
            return g.compound(kind, None, block(depth - 1, in_loop, 2), second)

        lines = block(3, False, 3) + [g.probe(), "return 'end'"]
        shapes.append((f"random{i}", lines))
    return shapes


POINTLESS = ["[t(1) for _ in range(2)]", "[0 for _ in range(2) if t(2)]", "[0 for _ in [t(3)]]", "0 if t(4) else 1", "f'{t(5)}'", "(1, 2)[t(1) - 1]",
             "(lambda: t(7))", "(t(8) for _ in range(2))", "(y := t(9))", "{t(1): 2}", "{1: t(2)}", "{t(3)}", "[t(4)]", "(t(5),)", "-t(6)", "t(7) + 1",
             "1 < t(8)", "t(9) and 0", "0 or t(1)", "len([t(3)])", "str(t(4))", "t(5).real", "t(6) if 0 else 1", "''.join([str(t(7))])",
             "(1).__add__(t(8))", "1 if c1 else t(9)", "[0 for _ in it if t(2)]", "{k: t(k) for k in it}", "{t(k) for k in it}", "sorted([t(1), t(2)])",
             "f'{1:{t(3)}}'", "(1, 2)[0:t(1)]", "c1 or t(4)", "c1 and t(5)", "not t(6)", "~t(7)", "[*[t(8)]]", "{**{1: t(9)}}", "print", "t", "1", "'doc'",
             "c1", "(c1, c2)", "[i for i in it]", "t(1) == t(2) == t(3)", "abs(t(4))", "max(t(5), t(6))", "isinstance(t(7), int)", "list(map(t, it))",
             "any(t(k) for k in it)", "_ = t(1)", "_ = [t(2)]", "x = t(3)", "x = [t(4) for _ in it]", "x: int = t(5)", "x = y = t(6)", "x, y = t(7), t(8)",
             "await_free = 1", "it.append(t(9))", "it[0:0] = [t(1)]", "del it[:]", "it += [t(2)]", "c1 = t(3)", "global_name = t(4)", "lambda: 0", "...",
             "None", "[] + [t(5)]", "dict(a=t(6))", "bool(t(7))", "int(str(t(8)))", "range(t(9))", "iter([t(1)])", "next(iter([t(2)]))", "type(t(3))",
             "(1, 2, 3)[0:2:t(1)]", "it[::t(2) or 1]", "it[t(3):]", "helper_if(c1)", "helper_try(c1)", "helper_with(c1)", "x = helper_if(c2)", "[helper_if(c1)]",
             "'a'.strip(strip())", "'a b'.split(upper())", "'a'.upper().strip(strip())", "decorated(c1)", "[decorated(1)]", "pure(c1)", "Derived()", "Plain()", "WithNew()", "ViaMeta()", "x = Derived()",
             "'%s' % t(4)", "'{}'.format(t(5))", "b'' or t(6)", "(lambda v: v)(t(7))", "[t(8)][0]", "{1: t(9)}[1]", "(t(1), t(2))[1]", "t(3) if t(4) else t(5)"]


USER_OBJECTS = ["loud.p", "loud + 1", "loud == 1", "loud[0]", "str(loud)", "len(loud)", "1 in loud", "-loud", "not loud", "f'{loud}'", "loud.missing", "[*loud]", "loud or 1", "1 if loud else 2",
                "'%s' % loud", "list(loud)", "sorted(loud)", "(loud, loud.p)", "{1: loud}[1].p", "print if loud else 0"]


KEPT_FOR_EFFECT = [
    ("a local function named like a pure function of the module", ["def pure(v):", "    t(61)", "    return v", "pure(c1)"]),
    ("a local class named like a pure class of the module", ["class Plain:", "    def __init__(self):", "        t(62)", "Plain()"]),
    ("a parameter named like a pure function of the module", ["def run(pure):", "    pure(c1)", "run(t)"]),
    ("a name rebound to an effectful function", ["quiet_name = pure", "quiet_name = t", "quiet_name(3)"]),
    ("a lambda bound to a name", ["cb = lambda: t(63)", "cb()"]),
    ("a bound method of a list", ["push = it.append", "push(5)", "t(len(it))"]),
    # statements that bind nothing and whose value is dropped, but that are there for what evaluating them does
    ("next skips an element", ["g = iter([1, 2, 3])", "next(g)", "t(next(g))"]),
    ("next with default skips an element", ["g = iter([1, 2, 3])", "next(g, None)", "t(next(g))"]),
    ("__next__ skips an element", ["g = iter([1, 2, 3])", "g.__next__()", "t(next(g))"]),
    ("next in a loop", ["g = iter([1, 2, 3, 4])", "for v in g:", "    next(g, None)", "    t(v)"]),
    ("missing key probed in try", ["d = {'k': 1}", "try:", "    d['x']", "    t(1)", "except KeyError:", "    t(2)"]),
    ("present key probed in try", ["d = {'k': 1}", "try:", "    d['k']", "    t(1)", "except KeyError:", "    t(2)"]),
    ("division probed in try", ["z = 0", "try:", "    1 / z", "    t(1)", "except ZeroDivisionError:", "    t(2)"]),
    ("index probed in try", ["try:", "    it[1]", "    t(1)", "except IndexError:", "    t(2)"]),
    ("attribute probed in try", ["o = object()", "try:", "    o.missing", "    t(1)", "except AttributeError:", "    t(2)"]),
    ("conversion probed in try", ["v = 'x'", "try:", "    int(v)", "    t(1)", "except ValueError:", "    t(2)"]),
    ("name probed in try", ["try:", "    undefined_name_", "    t(1)", "except NameError:", "    t(2)"]),
    ("comparison probed in try", ["try:", "    1 < 'a'", "    t(1)", "except TypeError:", "    t(2)"]),
    ("probe in try with else and finally", ["d = {}", "try:", "    d[c1]", "except KeyError:", "    t(2)", "else:", "    t(3)", "finally:", "    t(4)"]),
    ("dead yield after return", ["def g():", "    return", "    yield", "t(len(list(g())))"]),
    ("dead yield under if False", ["def g():", "    if False:", "        yield", "    t(1)", "t(len(list(g())))"]),
    ("dead yield under if 0 with a value", ["def g():", "    t(1)", "    if 0:", "        yield 5", "t(len(list(g())))"]),
    ("dead yield from", ["def g():", "    return None", "    yield from ()", "t(len(list(g())))"]),
    ("dead yield after raise", ["def g():", "    raise ValueError('g')", "    yield", "x = g()", "t(1)"]),
    ("dead yield in while False", ["def g():", "    while False:", "        yield 1", "t(len(list(g())))"]),
    ("dead yield after continue", ["def g():", "    for i in [1, 2]:", "        t(i)", "        continue", "        yield i", "t(len(list(g())))"]),
]


JUMPS_BESIDE_DEAD_BRANCHES = [
    # a break / continue in the branch that *is* taken of an if whose test is a known constant, followed by a return: the code after the loop is reached
    ("break in the elif of if False", ["for x in range(2):", "    if False:", "        break", "    elif not c1:", "        break", "    return t(1)", "t(2)"]),
    ("continue in the elif of if 0", ["for x in range(2):", "    if 0:", "        pass", "    elif c1:", "        continue", "    return t(1)", "t(2)"]),
    ("break in the else of if 0", ["while True:", "    if 0:", "        pass", "    else:", "        break", "    return t(1)", "t(2)"]),
    ("break in the else of if None in while c", ["while c1:", "    if None:", "        t(3)", "    else:", "        break", "    return t(1)", "t(2)"]),
    ("continue in a nested elif chain", ["for x in [1, 2]:", "    if '':", "        t(3)", "    elif c1:", "        t(4)", "    elif c2:", "        continue", "    return t(1)", "t(2)"]),
    ("break in the body of if True, elif dead", ["for x in [1, 2]:", "    if True:", "        if c1:", "            break", "    elif c2:", "        t(3)", "    return t(1)", "t(2)"]),
    ("break under else of a false if in a with", ["for x in [1, 2]:", "    with cm(5):", "        if []:", "            t(3)", "        else:", "            if c1:", "                break", "    return t(1)", "t(2)"]),
]


def pointless_shapes():
    shapes = []
    for label, lines in JUMPS_BESIDE_DEAD_BRANCHES:
        g = Gen()
        shapes.append((f"jump beside a dead branch: {label}", lines + [g.probe(), "return 'end'"]))
    for label, lines in KEPT_FOR_EFFECT:
        g = Gen()
        shapes.append((f"kept for effect: {label}", lines + [g.probe(), "return 'end'"]))
        shapes.append((f"kept for effect[if]: {label}", g.compound("if", "c1", lines) + [g.probe(), "return 'end'"]))
    for i, e in enumerate(POINTLESS + USER_OBJECTS):
        for ctx in (("top", "if", "loop", "else") if (e in POINTLESS or env.tier() == "thorough") else ("top", "loop")):
            g = Gen()
            if ctx == "top":
                lines = [e]
            elif ctx == "if":
                lines = g.compound("if", "c1", [e])
            elif ctx == "loop":
                lines = g.compound("for", "[1, 2]", [e, g.probe()])
            else:
                lines = g.compound("if", "c1", [g.probe()], [e])
            shapes.append((f"pointless[{ctx}]: {e}", lines + [g.probe(), "return 'end'"]))
    return shapes


# --------------------------------------------------------------------------------- worker side
def render(shapes):
    src = PRELUDE
    for i, (label, lines) in enumerate(shapes):
        src += f"\n\ndef f{i}(c1, c2, c3, it):\n" + "".join("    " + l + "\n" for l in lines)
    return src


class Spinning(BaseException):
    pass


_SPIN = {"trace": None, "cut": None}


def _spin(signum, frame):
    # what the probes record while the exception unwinds (finally blocks, __exit__) depends on where the timer happened to fire: the trace counts up to here
    if _SPIN["cut"] is None and _SPIN["trace"] is not None:
        _SPIN["cut"] = len(_SPIN["trace"])
    raise Spinning()


def observe(text, names):
    """{function name: [(trace, outcome) per valuation]} ; None when the module does not load."""
    ns = {"__name__": "c16"}
    try:
        exec(compile(text, "<c16>", "exec"), ns)
    except BaseException as exc:
        return None
    out = {}
    import copy
    import io
    import signal
    import sys

    for name in names:
        fn = ns.get(name)
        rows = []
        if fn is None:
            out[name] = None
            continue
        for val in VALUATIONS:
            ns["TRACE"].clear()
            _SPIN["trace"], _SPIN["cut"] = ns["TRACE"], None
            old = sys.stdout
            sys.stdout = io.StringIO()
            old_handler = signal.signal(signal.SIGVTALRM, _spin)
            signal.setitimer(signal.ITIMER_VIRTUAL, 0.05, 0.05)  # a loop that spins without probes: same verdict on both sides
            try:
                try:
                    r = fn(**copy.deepcopy(val))
                    outcome = ("ret", repr(r))
                except BaseException as exc:
                    if type(exc).__name__ == "CpuBudget":
                        raise
                    outcome = ("exc", type(exc).__name__)
                finally:
                    signal.setitimer(signal.ITIMER_VIRTUAL, 0, 0)
            except Spinning:
                outcome = ("exc", "Spinning")  # the timer fired between the call's end and its disarming
            finally:
                signal.setitimer(signal.ITIMER_VIRTUAL, 0, 0)
                signal.signal(signal.SIGVTALRM, old_handler or signal.SIG_DFL)
                sys.stdout = old
            if _SPIN["cut"] is not None:  # the run was cut by the spin guard: the verdict is "spins after this prefix", whatever exception finally surfaced
                rows.append((tuple(ns["TRACE"][: _SPIN["cut"]]), ("exc", "Spinning")))
            else:
                rows.append((tuple(ns["TRACE"]), outcome))
        out[name] = rows
    return out


def w_shapes(arg):
    from .. import hooks, tasks

    m = hooks.mods()
    core = m["core"]
    shapes = arg["shapes"]
    names = [f"f{i}" for i in range(len(shapes))]
    src = render(shapes)
    res = {"functions": len(shapes), "rule_calls": 0, "rewritten": 0, "violations": [], "nontrivial": [], "samples": [], "fired": {},
           "blocking_claims": 0, "no_side_effect_claims": 0, "analyses_checked": 0}
    base = observe(src, names)
    if base is None:
        res["violations"].append({"kind": "harness_shape_does_not_load", "input": src, "detail": {}, "replay": {"fn": "harness.checks.c16:w_shapes", "arg": arg}})
        return res
    before_fns = {n.name: n for n in ast.parse(src).body if isinstance(n, ast.FunctionDef)}

    def replay_for(i, rule):
        return {"fn": "harness.checks.c16:w_shapes", "arg": {"shapes": [shapes[i]], "rules": [rule], "direct": False}}

    rules = arg.get("rules") or ([list(r) for r in RULES] + [["main", "format_code"]])
    for mod, name in rules:
        rule = f"{mod}.{name}"
        res["rule_calls"] += 1
        try:
            if rule == "main.format_code":
                out = m["main"].format_code(src, safe=True)
            else:
                out = getattr(m[mod], name)(src)
        except Exception as exc:
            res["violations"].append({"kind": "rule_raised", "rule": rule, "input": src, "detail": tasks.crash_info(exc),
                                      "replay": {"fn": "harness.checks.c16:w_shapes", "arg": dict(arg, rules=[[mod, name]], direct=False)}})
            continue
        if out == src:
            continue
        try:
            after_fns = {n.name: n for n in ast.parse(out).body if isinstance(n, ast.FunctionDef)}
        except SyntaxError:
            res["violations"].append({"kind": "rule_output_invalid", "rule": rule, "input": src, "detail": {"after": out[-600:]},
                                      "replay": {"fn": "harness.checks.c16:w_shapes", "arg": dict(arg, rules=[[mod, name]], direct=False)}})
            continue
        changed = [n for n in names if n not in after_fns or ast.dump(after_fns[n]) != ast.dump(before_fns[n])]
        if not changed:
            continue
        after = observe(out, names)
        attribution = {}
        if rule == "main.format_code" and after is not None and any(after.get(n) != base[n] for n in changed):
            from .. import trace

            _, _, steps = trace.traced_format(src, {"safe": True})
            prev = base
            for st in steps:
                cur = observe(st["out"], names)
                if cur is None:
                    break
                for n in changed:
                    if n not in attribution and cur.get(n) != prev.get(n):
                        attribution[n] = (st["rule"], st["in"], st["out"])
                prev = cur
        for n in changed:
            i = int(n[1:])
            res["rewritten"] += 1
            res["fired"][rule] = res["fired"].get(rule, 0) + 1
            res["nontrivial"].append(env.digest(rule + "\n".join(shapes[i][1])))
            a = after.get(n) if after else None
            if a != base[n]:
                if a is None:
                    detail = {"shape": shapes[i][0], "problem": "function missing or module does not load after the rule"}
                else:
                    k = next(j for j in range(len(VALUATIONS)) if a[j] != base[n][j])
                    detail = {"shape": shapes[i][0], "valuation": {kk: vv for kk, vv in VALUATIONS[k].items()}, "before_trace": base[n][k], "after_trace": a[k],
                              "differing_valuations": sum(1 for j in range(len(VALUATIONS)) if a[j] != base[n][j])}
                if n in attribution:
                    detail["attributed_rule"] = attribution[n][0]
                    try:
                        fb = {x.name: x for x in ast.parse(attribution[n][1]).body if isinstance(x, ast.FunctionDef)}.get(n)
                        fa = {x.name: x for x in ast.parse(attribution[n][2]).body if isinstance(x, ast.FunctionDef)}.get(n)
                        detail["step_before"] = ast.unparse(fb) if fb else None
                        detail["step_after"] = ast.unparse(fa) if fa else None
                    except SyntaxError:
                        pass
                if len(res["violations"]) < 60:
                    body = "def f(c1, c2, c3, it):\n" + "".join("    " + l + "\n" for l in shapes[i][1])
                    res["violations"].append({"kind": "deleted_code_was_observable", "rule": rule, "input": body, "before": body,
                                              "after": ast.unparse(after_fns[n]) if n in after_fns else None, "detail": detail, "replay": replay_for(i, [mod, name])})
            elif len(res["samples"]) < 1:
                res["samples"].append({"rule": rule, "shape": shapes[i][0], "before": shapes[i][1], "after": ast.unparse(after_fns[n]), "valuations": len(VALUATIONS)})
    # the analyses themselves, sound direction only
    if arg.get("direct", True):
        for i, n in enumerate(names):
            fn = before_fns[n]
            first = fn.body[0]
            tail_ids = _probe_ids(fn.body[-2])
            if len(fn.body) < 3:
                continue
            res["analyses_checked"] += 1
            try:
                blocking = core.is_blocking(first)
                pure = not core.has_side_effect(first)
            except Exception as exc:
                res["violations"].append({"kind": "analysis_raised", "rule": "core.is_blocking/has_side_effect", "input": "\n".join(shapes[i][1]), "detail": tasks.crash_info(exc),
                                          "replay": {"fn": "harness.checks.c16:w_shapes", "arg": {"shapes": [shapes[i]], "rules": []}}})
                continue
            if blocking and len(fn.body) == 3:
                res["blocking_claims"] += 1
                reached = [VALUATIONS[j] for j, (trace, outcome) in enumerate(base[n]) if set(trace) & tail_ids]
                if reached:
                    res["violations"].append({"kind": "is_blocking_but_next_statement_reached", "rule": "core.is_blocking", "input": "\n".join(shapes[i][1]),
                                              "detail": {"shape": shapes[i][0], "valuation": reached[0]},
                                              "replay": {"fn": "harness.checks.c16:w_shapes", "arg": {"shapes": [shapes[i]], "rules": []}}})
            if pure and len(fn.body) == 3:
                res["no_side_effect_claims"] += 1
                expected = (tuple(sorted(tail_ids)), ("ret", "'end'"))
                bad = [VALUATIONS[j] for j, row in enumerate(base[n]) if (tuple(sorted(row[0])), row[1]) != expected]
                if bad:
                    res["violations"].append({"kind": "no_side_effect_but_statement_observable", "rule": "core.has_side_effect", "input": "\n".join(shapes[i][1]),
                                              "detail": {"shape": shapes[i][0], "valuation": bad[0]},
                                              "replay": {"fn": "harness.checks.c16:w_shapes", "arg": {"shapes": [shapes[i]], "rules": []}}})
    return res


def _probe_ids(node):
    out = set()
    for n in ast.walk(node):
        if isinstance(n, ast.Call) and isinstance(n.func, ast.Name) and n.func.id == "t" and n.args and isinstance(n.args[0], ast.Constant):
            out.add(n.args[0].value)
    return out


# --------------------------------------------------------------------------------- parent side
def main() -> int:
    from .. import pool

    v = verdict.Verdict(PROP)
    thorough = env.tier() == "thorough"
    enum = enumerated_shapes()
    n_enum = len(enum)
    r = env.rng(PROP, "pick")
    shapes = (enum if thorough else r.sample(enum, 1500)) + pointless_shapes() + random_shapes(6000 if thorough else 500, "rand")
    tasks = [{"shapes": shapes[i:i + 10]} for i in range(0, len(shapes), 10)]
    tot = {}
    with pool.Pool() as p:
        verdict.run_witnesses(v, p)
        reps = p.map("harness.checks.c16:w_shapes", tasks, cpu_s=900)
        verdict.pool_failures(v, reps, "C16 shapes")
        for rep in reps:
            if rep.get("status") == "ok":
                _merge(tot, rep["value"])
    v.extend(tot.get("violations", []))
    if tot.get("rewritten", 0) == 0:
        v.inconclusive_because("no consumer rule changed any shape")
    cov = {
        "evaluations": tot.get("rule_calls", 0),
        "distinct_nontrivial": len(set(tot.get("nontrivial", []))),
        "rule": "a case = one rule applied to a module of 10 shape functions; non-trivial = a function the rule changed (then executed under all "
                f"{len(VALUATIONS)} valuations before and after), distinct by (rule, shape) digest",
        "samples": tot.get("samples", [])[:3] or [{"note": "none"}],
        "shapes": {"enumerated_total": n_enum, "enumerated_run": n_enum if thorough else 1500, "exhaustive_for_bound": thorough,
                   "pointless_candidates": len(pointless_shapes()), "random_depth3": 6000 if thorough else 500},
        "monitors": {k: tot.get(k) for k in ("functions", "rule_calls", "rewritten", "analyses_checked", "blocking_claims", "no_side_effect_claims")},
        "rules_fired": tot.get("fired"),
        "exhaustive": False,
    }
    return v.finish(cov, assumptions=["unknown conditions range over {False, True}, iterables over {[], [1], [1, 2]}; probes are capped at 40 events (non-terminating loops compare equal prefixes)"])


def _merge(total, part):
    for k, val in part.items():
        if isinstance(val, bool):
            continue
        if isinstance(val, int):
            total[k] = total.get(k, 0) + val
        elif isinstance(val, list):
            total.setdefault(k, []).extend(val)
        elif isinstance(val, dict):
            d = total.setdefault(k, {})
            for kk, vv in val.items():
                d[kk] = d.get(kk, 0) + vv


def replay(rec) -> int:
    return verdict.generic_replay(PROP, rec)
