"""C17 - boolean, comparison and range rewrites are logically equivalent.

Oracle: truth tables. Formulas are wrapped in functions `def f_i(x, y, z): return <formula>` (20 per module, so one
rollback cannot hide many), the module goes through one rule, the rewritten function is read back from the rule's
output and both versions are evaluated under every valuation of the box [-2, 8]^k.
"""
from __future__ import annotations

import ast
import itertools

from .. import env, verdict

PROP = "C17"
OPS = ["<", "<=", ">", ">=", "==", "!="]
BOX = list(range(-2, 9))
BOOL_RULES = [("symbolic_math", "simplify_boolean_expressions"), ("symbolic_math", "simplify_boolean_expressions_symmath"),
              ("fixes", "remove_redundant_boolop_values"), ("fixes", "replace_negated_numeric_comparison")]
SHAPE_RULES = [("fixes", "swap_if_else"), ("fixes", "fix_if_return"), ("fixes", "fix_if_assign"), ("fixes", "early_return"),
               ("fixes", "early_continue"), ("fixes", "remove_redundant_else"), ("fixes", "replace_negated_numeric_comparison"),
               ("symbolic_math", "simplify_boolean_expressions"), ("symbolic_math", "simplify_boolean_expressions_symmath"),
               ("fixes", "breakout_common_code_in_ifs"), ("fixes", "remove_dead_ifs"), ("fixes", "replace_with_filter")]
RANGE_RULES = [("symbolic_math", "simplify_constrained_range")]
SUM_RULES = [("symbolic_math", "simplify_math_iterators"), ("fixes", "inline_math_comprehensions")]

SHAPES = {
    "return": "    return {F}\n",
    "pass_else": "    if {F}:\n        pass\n    else:\n        return 'A'\n    return 'B'\n",
    "return_bool": "    if {F}:\n        return False\n    return True\n",
    "return_bool2": "    if {F}:\n        return True\n    else:\n        return False\n",
    "not": "    return not ({F})\n",
    "assign_bool": "    if {F}:\n        r = True\n    else:\n        r = False\n    return r\n",
    "loop_tail": "    out = []\n    for i in range(2):\n        out.append(i)\n        if {F}:\n            out.append(10)\n            out.append(11)\n            out.append(12)\n    return out\n",
    "loop_continue": "    out = []\n    for i in range(2):\n        if not ({F}):\n            continue\n        out.append(i)\n    return out\n",
    "else_return": "    if {F}:\n        return 1\n    else:\n        y = y + 1\n        return y\n",
    "ifexp": "    return 1 if {F} else 2\n",
    "while": "    n = 0\n    while not ({F}) and n < 3:\n        n += 1\n        x += 1\n    return n\n",
    "short_else": "    if {F}:\n        a = x + 1\n        b = a * 2\n        c = b - y\n        return c\n    else:\n        return 0\n",
    "filter": "    return [v for v in range(-2, 9) if {G}]\n",
}


def atoms(vars_, consts):
    out = []
    for v in vars_:
        for op in OPS:
            for c in consts:
                out.append(f"{v} {op} {c}")
                out.append(f"{c} {op} {v}")
    for v, w in itertools.permutations(vars_, 2):
        for op in OPS:
            out.append(f"{v} {op} {w}")
    return out


def chained_formulas():
    """Chained comparisons, plain, negated and combined: `not 0 < x < 5` is not `0 >= x`."""
    out = []
    for a, b in itertools.product(OPS, repeat=2):
        for lo, hi in ((0, 5), (2, 2), (3, 1)):
            chain = f"{lo} {a} x {b} {hi}"
            out += [chain, f"not {chain}", f"not ({chain})", f"{chain} and x != 1", f"not {chain} or x == 4"]
        out += [f"x {a} y {b} 0", f"not x {a} y {b} 0", f"not (x {a} y {b} 3)", f"x {a} 1 {b} y", f"not 1 {a} x {b} y"]
    return out


def two_atom_formulas(vars_, consts):
    A = atoms(vars_, consts)
    for a, b in itertools.product(A, repeat=2):
        yield f"{a} and {b}"
        yield f"{a} or {b}"


def random_formulas(n, stream):
    out = []
    for i in range(n):
        r = env.rng(PROP, stream, i)
        vars_ = r.choice([["x"], ["x"], ["x", "y"], ["x", "y", "z"]])
        A = atoms(vars_, range(0, 6))

        def gen(d):
            k = r.random()
            if d == 0 or k < 0.3:
                a = r.choice(A)
                return f"not {a}" if r.random() < 0.15 else a
            if k < 0.85:
                op = r.choice(["and", "or"])
                n_ = r.choice([2, 2, 3])
                return "(" + f" {op} ".join(gen(d - 1) for _ in range(n_)) + ")"
            return f"not ({gen(d - 1)})"

        out.append(gen(r.choice([1, 2, 2, 3])))
    return out


def truthy_formulas(n, stream):
    """Formulas whose operands are also bare integer variables and small arithmetic on them, as conditions are written in practice."""
    out = []
    for i in range(n):
        r = env.rng(PROP, stream, i)
        vars_ = r.choice([["x"], ["x", "y"], ["x", "y"], ["x", "y", "z"]])
        A = atoms(vars_, range(0, 4)) + [v for v in vars_] * 12 + [f"not {v}" for v in vars_] * 6 + [f"{v} % 2" for v in vars_] * 4 + [f"{v} - 1" for v in vars_] * 2

        def gen(d):
            k = r.random()
            if d == 0 or k < 0.3:
                return r.choice(A)
            if k < 0.85:
                op = r.choice(["and", "or"])
                return "(" + f" {op} ".join(gen(d - 1) for _ in range(r.choice([2, 2, 3]))) + ")"
            return f"not ({gen(d - 1)})"

        out.append(gen(r.choice([1, 2, 2, 3])))
    return out


def range_cases(thorough):
    out = []
    rng_args = []
    vals = range(-2, 7) if thorough else range(-1, 5)
    for a in vals:
        rng_args.append(f"{a}")
        for b in vals:
            rng_args.append(f"{a}, {b}")
            for c in ([1, 2, 3, -1] if thorough else [1, 2, -1]):
                rng_args.append(f"{a}, {b}, {c}")
    filters = [f"i {op} {k}" for op in OPS for k in (range(-1, 5) if thorough else range(0, 4))] + \
              [f"{k} {op} i" for op in OPS for k in (range(-1, 5) if thorough else range(0, 4))]
    for ra in rng_args:
        for f in filters:
            out.append(("list", ra, [f]))
    r = env.rng(PROP, "range2")
    for _ in range(len(out) // 4):
        out.append((r.choice(["list", "set", "gen", "list"]), r.choice(rng_args), r.sample(filters, 2)))
    return out


def sum_cases():
    out = []
    for a in range(-2, 6):
        out.append(f"sum(range({a}))")
        for b in range(-2, 6):
            out.append(f"sum(range({a}, {b}))")
            out.append(f"sum(i for i in range({a}, {b}))")
            out.append(f"sum(i * i for i in range({a}, {b}))")
            out.append(f"sum([i * 2 + 1 for i in range({a}, {b})])")
            out.append(f"len(range({a}, {b}))")
            for c in (2, 3, -1):
                out.append(f"sum(range({a}, {b}, {c}))")
                out.append(f"len(range({a}, {b}, {c}))")
    for e in ["i", "i * i", "2 * i + 3", "i * x", "x", "1", "i ** 2 - i", "(i + 1) * (i - 1)", "i * i * i", "x * y"]:
        out.append(f"sum({e} for i in range(x))")
        out.append(f"sum({e} for i in range(y, x))")
        out.append(f"sum([{e} for i in range(x)])")
        out.append(f"sum({e} for i in range(x + 1))")
        out.append(f"sum({e} for i in range(x + 3))")
        out.append(f"sum({e} for i in range(-3, x))")
        out.append(f"sum({e} for i in range(0, x, 2))")
        out.append(f"sum({e} for i in (1, 2, 3))")
        out.append(f"sum({e} for i in [x, y])")
        out.append(f"sum({e} for i in {{1, 2, 3}})")
        out.append(f"sum({e} for i in range(x) for j in range(y))")
        out.append(f"sum({e} for i in range(x) if i > 1)")
    out += ["sum(range(x))", "sum(range(x, y))", "sum(range(y, x, 2))", "len(range(x))", "len(range(x, y))", "sum((1, 2, x))", "sum([x, y, z])",
            "len([i for i in range(x)])", "len([i for i in range(x) if i > 2])", "sum(1 for i in range(x))", "len((x, y))", "sum({x, y})", "len({x, y})"]
    return out


# --------------------------------------------------------------------------------- worker side
def _functions(text):
    tree = ast.parse(text)
    return {n.name: n for n in tree.body if isinstance(n, ast.FunctionDef)}


def _compile_fn(node):
    mod = ast.Module(body=[node], type_ignores=[])
    ns = {}
    exec(compile(ast.fix_missing_locations(mod), "<c17>", "exec"), ns)
    return ns[node.name]


def _table(fn, nvars):
    out = []
    for vals in itertools.product(BOX, repeat=nvars):
        args = list(vals) + [0] * (3 - nvars)
        try:
            v = fn(*args)
            if hasattr(v, "__next__"):
                v = list(v)
            out.append(("v", v))
        except Exception as exc:
            out.append(("e", type(exc).__name__))
    return out


def _some_range_empty(fn_node, valuation):
    """True if some range(...) call of the original function is empty under the valuation (loop variables unknown: skipped)."""
    for n in ast.walk(fn_node):
        if isinstance(n, ast.Call) and isinstance(n.func, ast.Name) and n.func.id == "range" and not n.keywords:
            try:
                args = [eval(compile(ast.Expression(a), "<r>", "eval"), {"__builtins__": {}}, dict(valuation)) for a in n.args]
                if len(range(*args)) == 0:
                    return True
            except Exception:
                continue
    return False


def w_module(arg):
    """arg: {"rules": [(mod, name)], "bodies": [(label, body_text, nvars)]} -> compare every function before/after each rule."""
    from .. import hooks

    m = hooks.mods()
    res = {"functions": 0, "rule_calls": 0, "rewritten": 0, "tables": 0, "violations": [], "nontrivial": [], "samples": [], "fired": {}}
    bodies = arg["bodies"]
    src = "".join(f"def f{i}(x, y, z):\n{body}\n\n" for i, (label, body, nv) in enumerate(bodies))
    try:
        before_fns = _functions(src)
    except SyntaxError:
        return res
    res["functions"] += len(bodies)
    for mod, name in arg["rules"]:
        fn = getattr(m.get(mod), name, None)
        if fn is None:
            continue
        rule = f"{mod}.{name}"
        res["rule_calls"] += 1
        try:
            out = fn(src) if not arg.get("format_code") else m["main"].format_code(src, safe=True)
        except Exception as exc:
            # find the culprit function by bisection would be costly: report the module, C04 keys it by call site
            from .. import tasks

            res["violations"].append({"kind": "rule_raised", "rule": rule, "input": src, "detail": tasks.crash_info(exc),
                                      "replay": {"fn": "harness.checks.c17:w_module", "arg": dict(arg, rules=[[mod, name]])}})
            continue
        if out == src:
            continue
        try:
            after_fns = _functions(out)
        except SyntaxError:
            res["violations"].append({"kind": "rule_output_invalid", "rule": rule, "input": src, "detail": {"after": out[:500]},
                                      "replay": {"fn": "harness.checks.c17:w_module", "arg": dict(arg, rules=[[mod, name]])}})
            continue
        for i, (label, body, nv) in enumerate(bodies):
            fname = f"f{i}"
            b, a = before_fns.get(fname), after_fns.get(fname)
            if a is None:
                res["violations"].append({"kind": "function_disappeared", "rule": rule, "input": src, "detail": {"formula": label},
                                          "replay": {"fn": "harness.checks.c17:w_module", "arg": {"rules": [[mod, name]], "bodies": [bodies[i]]}}})
                continue
            if ast.dump(a) == ast.dump(b):
                continue
            res["rewritten"] += 1
            res["fired"][rule] = res["fired"].get(rule, 0) + 1
            res["nontrivial"].append(env.digest(rule + body))
            try:
                tb = _table(_compile_fn(b), nv)
                ta = _table(_compile_fn(a), nv)
            except Exception as exc:
                res["violations"].append({"kind": "rewritten_function_does_not_compile", "rule": rule, "input": src, "detail": {"formula": label, "exc": repr(exc)},
                                          "replay": {"fn": "harness.checks.c17:w_module", "arg": {"rules": [[mod, name]], "bodies": [bodies[i]]}}})
                continue
            res["tables"] += 1
            attributed = None
            if ta != tb and arg.get("format_code"):
                # attribute to the first pipeline step that changes this function's table; judge the mechanism there
                from .. import trace

                if "steps" not in res:
                    res["steps"] = trace.traced_format(src, {"safe": True})[2]
                prev_fn, prev_t = b, tb
                for st in res["steps"]:
                    try:
                        cur_fn = _functions(st["out"]).get(fname)
                        cur_t = _table(_compile_fn(cur_fn), nv) if cur_fn is not None else None
                    except Exception:
                        break
                    if cur_t != prev_t:
                        attributed = (st["rule"], prev_fn, cur_fn)
                        break
                    prev_fn, prev_t = cur_fn, cur_t
                if attributed and attributed[2] is not None:
                    b, a = attributed[1], attributed[2]
                    tb, ta = _table(_compile_fn(b), nv), _table(_compile_fn(a), nv)
            if ta != tb:
                k = next(j for j in range(len(tb)) if ta[j] != tb[j])
                vals = list(itertools.product(BOX, repeat=nv))[k]
                if len(res["violations"]) < 80:
                    diff_idx = [j for j in range(len(tb)) if ta[j] != tb[j]]
                    all_vals = list(itertools.product(BOX, repeat=nv))
                    causes = set()
                    for j in diff_idx:
                        if _some_range_empty(b, dict(zip("xyz", list(all_vals[j]) + [0] * 3))):
                            causes.add("empty_range")
                        elif tb[j][0] == ta[j][0] == "v" and isinstance(tb[j][1], (int, float)) and isinstance(ta[j][1], (int, float)) \
                                and abs(tb[j][1] - ta[j][1]) <= 1e-9 * max(1.0, abs(tb[j][1])):
                            causes.add("float_rounding")
                        else:
                            causes.add("other")
                    empty_everywhere = causes == {"empty_range"}
                    res["violations"].append({
                        "kind": "formula_value_differs", "only_where_a_range_is_empty": empty_everywhere, "difference_causes": sorted(causes),
                        "attributed_rule": attributed[0] if attributed else None, "rule": rule, "input": f"def f(x, y, z):\n{body}",
                        "before": ast.unparse(b), "after": ast.unparse(a),
                        "detail": {"formula": label, "rewritten": ast.unparse(a), "valuation": dict(zip("xyz", vals)), "before": repr(tb[k]), "after": repr(ta[k]),
                                   "differing_valuations": sum(1 for j in range(len(tb)) if ta[j] != tb[j]), "valuations": len(tb)},
                        "replay": {"fn": "harness.checks.c17:w_module", "arg": {"rules": [[mod, name]], "bodies": [bodies[i]], "format_code": arg.get("format_code", False)}}})
                else:
                    res["truncated"] = res.get("truncated", 0) + 1
            elif len(res["samples"]) < 1:
                res["samples"].append({"rule": rule, "before": body.strip(), "after": ast.unparse(a), "valuations": len(tb)})
    res.pop("steps", None)
    return res


# --------------------------------------------------------------------------------- parent side
def nvars_of(text):
    return 3 if "z" in _names(text) else 2 if "y" in _names(text) else 1


def _names(text):
    import re

    return set(re.findall(r"\b[xyz]\b", text))


def main() -> int:
    from .. import pool

    v = verdict.Verdict(PROP)
    thorough = env.tier() == "thorough"
    r = env.rng(PROP, "main")
    formulas = list(two_atom_formulas(["x"], range(0, 6) if thorough else range(0, 4)))
    n_two = len(formulas)
    two_var = list(two_atom_formulas(["x", "y"], range(0, 3)))
    formulas += r.sample(two_var, 8000 if thorough else 2500)
    formulas += random_formulas(8000 if thorough else 3000, "rand")
    formulas += chained_formulas()
    tasks = []

    def add(bodies, rules, size=20, **kw):
        for i in range(0, len(bodies), size):
            tasks.append(dict({"rules": rules, "bodies": bodies[i:i + size]}, **kw))

    add([(f, SHAPES["return"].replace("{F}", f), nvars_of(f)) for f in formulas], BOOL_RULES)
    shape_formulas = formulas if thorough else r.sample(formulas, 1500)
    shaped = []
    for k, f in enumerate(shape_formulas):
        names = [n for n in SHAPES if n not in ("return", "filter")]
        for sname in (names if thorough and k % 5 == 0 else [names[k % len(names)]]):
            shaped.append((f"{sname}: {f}", SHAPES[sname].replace("{F}", f), nvars_of(f)))
        if "x" in f and "y" not in f and "z" not in f and k % 3 == 0:
            g = f.replace("x", "v")
            shaped.append((f"filter: {g}", SHAPES["filter"].replace("{G}", g), 1))
    # integers used as conditions (`if x and not y:`): only where the formula is read as a truth value, never where its own value is what is returned
    truthy = truthy_formulas(1500 if thorough else 500, "truthy")
    names = [n for n in SHAPES if n not in ("return", "filter", "return_bool2", "assign_bool")]
    for k, f in enumerate(truthy):
        for sname in (names if thorough and k % 5 == 0 else [names[k % len(names)]]):
            shaped.append((f"{sname}: {f}", SHAPES[sname].replace("{F}", f), nvars_of(f)))
    add(shaped, SHAPE_RULES)
    rcs = range_cases(thorough)
    rbodies = []
    for kind, ra, fl in rcs:
        cond = " if " + " if ".join(fl)
        expr = {"list": f"[i for i in range({ra}){cond}]", "set": f"sorted({{i for i in range({ra}){cond}}})", "gen": f"list(i for i in range({ra}){cond})"}[kind]
        rbodies.append((expr, f"    return {expr}\n", 0))
    add(rbodies, RANGE_RULES)
    sbodies = [(e, f"    return {e}\n", nvars_of(e) if _names(e) else 0) for e in sum_cases()]
    add(sbodies, SUM_RULES)
    fc = r.sample(shaped, 400 if thorough else 60) + r.sample(rbodies, 100 if thorough else 20) + r.sample(sbodies, 100 if thorough else 20)
    add(fc, [["main", "format_code"]], size=10, format_code=True)
    tot = {}
    with pool.Pool() as p:
        verdict.run_witnesses(v, p)
        reps = p.map("harness.checks.c17:w_module", tasks, cpu_s=900)
        verdict.pool_failures(v, reps, "C17 module")
        for rep in reps:
            if rep.get("status") == "ok":
                _merge(tot, rep["value"])
    v.extend(tot.get("violations", []))
    if tot.get("tables", 0) == 0:
        v.inconclusive_because("no rewritten formula was evaluated")
    cov = {
        "evaluations": tot.get("rule_calls", 0),
        "distinct_nontrivial": len(set(tot.get("nontrivial", []))),
        "rule": "a case = one rule applied to one module of <= 20 formula functions; non-trivial = a function whose tree the rule changed "
                "(its truth table was then compared over the whole box), distinct by (rule, function body) digest",
        "samples": tot.get("samples", [])[:4] or [{"note": "none"}],
        "formulas": {"two_atom_one_variable_enumerated": n_two, "total_formulas": len(formulas), "shaped_functions": len(shaped),
                     "range_comprehensions": len(rbodies), "sum_expressions": len(sbodies), "box": [BOX[0], BOX[-1]]},
        "monitors": {k: tot.get(k) for k in ("functions", "rule_calls", "rewritten", "tables")},
        "rules_fired": tot.get("fired"),
        "exhaustive": False,
    }
    return v.finish(cov, assumptions=["integers only (the statement's domain); values compared with == and exception class",
                                      "the box [-2, 8] strictly contains every constant used (0..5; ranges -2..6)"])


def _merge(total, part):
    for k, val in part.items():
        if isinstance(val, bool):
            continue
        if isinstance(val, int):
            total[k] = total.get(k, 0) + val
        elif isinstance(val, list):
            total.setdefault(k, []).extend(val)
        elif isinstance(val, dict):
            d = total.setdefault(k, {})
            for kk, vv in val.items():
                d[kk] = d.get(kk, 0) + vv


def replay(rec) -> int:
    return verdict.generic_replay(PROP, rec)
