"""C18 - import normalisation keeps every referenced name bound to the same object.

Workload: G6 worlds (harness/gen/worlds.py) written to a scratch directory; clients importing from them in every
statement form and position, as a script in the world root, as a module inside the package (relative imports) and as
a package __init__ (format_file -> keep_imports).

Oracle: the original and every rewritten client are executed in fresh child processes (cwd = world root, world first
on sys.path). Every name the client uses goes through see(tag, obj); the sequences of (tag, descriptor(obj)) and the
exit status must be identical. Descriptors identify the object a name resolved to (module name + file, defining module
+ qualified name, unique constant values), so "same descriptor" is "same object" across processes.
pyrefact itself runs in the worker with cwd = world root (that is where tracing looks for module sources).
"""
from __future__ import annotations

import json
import os
import pathlib
import shutil
import subprocess
import tempfile

from .. import env, verdict

PROP = "C18"
IMPORT_RULES = [("tracing", "fix_starred_imports"), ("tracing", "fix_reimported_names"), ("fixes", "remove_unused_imports"), ("fixes", "fix_duplicate_imports"),
                ("fixes", "sort_imports"), ("fixes", "move_imports_to_toplevel"), ("fixes", "add_missing_imports"), ("fixes", "fix_import_spacing")]
IMPORT_RULE_NAMES = {f"{a}.{b}" for a, b in IMPORT_RULES}
RUNNER = str(pathlib.Path(__file__).resolve().parent.parent / "c18_runner.py")


def child(root, *args, timeout=60):
    try:
        p = subprocess.run([env.PY, "-I", "-S", RUNNER, *args[:1], str(root), *args[1:]], capture_output=True, text=True, timeout=timeout, cwd=str(root))
    except subprocess.TimeoutExpired:
        return {"status": "timeout", "events": []}
    if args[0] == "--dump":
        try:
            return json.loads(p.stdout)
        except ValueError:
            return {}
    for line in reversed(p.stdout.splitlines()):
        if line.startswith("@@C18@@"):
            return json.loads(line[7:])
    return {"status": "crash", "events": [], "message": (p.stderr or "")[-300:]}


def same(a, b):
    return a["status"] == b["status"] and a["events"] == b["events"]


def first_difference(a, b):
    if a["status"] != b["status"]:
        return {"status_before": a["status"], "status_after": b["status"], "message": b.get("message")}
    for x, y in zip(a["events"], b["events"]):
        if x != y:
            return {"tag": x[0], "before": x[1], "after": y[1] if y[0] == x[0] else y}
    return {"events_before": len(a["events"]), "events_after": len(b["events"])}


# --------------------------------------------------------------------------------- worker side
def w_world(arg):
    from .. import hooks, trace
    from ..gen import worlds

    m = hooks.mods()
    rf = hooks.rule_functions()
    res = {"worlds": 0, "clients": 0, "in_class": 0, "rejects": 0, "reject_reasons": {}, "rewrites": 0, "executed_variants": 0, "events_compared": 0, "violations": [],
           "nontrivial": [], "samples": [], "fired": {}, "crashed": {}, "left_to_c01": 0, "kinds": {}}
    files, info = (arg["files"], arg["info"]) if arg.get("files") else worlds.make_world(arg["world"])
    root = pathlib.Path(tempfile.mkdtemp(prefix="c18-", dir=str(env.scratch())))
    cwd = os.getcwd()
    try:
        for rel, text in files.items():
            p = root / rel
            p.parent.mkdir(parents=True, exist_ok=True)
            p.write_text(text, encoding="utf-8")
        exports = child(root, "--dump", *info["modules"])
        if not exports:
            res["reject_reasons"]["dump_failed"] = 1
            return res
        res["worlds"] += 1
        os.chdir(root)
        for ci in range(arg["clients"]):
            if arg.get("only") is not None and ci != arg["only"]:
                continue
            forced = (arg.get("forced") or {}).get(str(ci))
            kind = ["root", "root", "member", "init"][ci % 4]
            if forced:
                kind, text = forced["kind"], forced["text"]
            else:
                info["member_depth"] = 2 if kind == "init" else 1
                text = worlds.make_client((*arg["world"], "client", ci), info, exports, kind="root" if kind == "root" else "member")
            if kind == "root":
                path, run = root / f"client{info['suffix']}_{ci}.py", None
                run = ("path", str(path))
            elif kind == "member":
                path = root / info["pkg"] / f"app{ci}.py"
                run = ("module", f"{info['pkg']}.app{ci}")
            else:
                path = root / info["pkg"] / f"appdir{ci}" / "__init__.py"
                path.parent.mkdir(exist_ok=True)
                run = ("module", f"{info['pkg']}.appdir{ci}")
            res["clients"] += 1
            res["kinds"][kind] = res["kinds"].get(kind, 0) + 1
            path.write_text(text, encoding="utf-8")
            base = child(root, "--run", *run)
            if base["status"] != "ok" or not base["events"]:
                res["rejects"] += 1
                res["reject_reasons"][base["status"]] = res["reject_reasons"].get(base["status"], 0) + 1
                continue
            if not same(base, child(root, "--run", *run)):
                res["rejects"] += 1
                res["reject_reasons"]["nondeterministic"] = res["reject_reasons"].get("nondeterministic", 0) + 1
                continue
            res["in_class"] += 1
            variants = []  # (label, out, steps | None)
            for key in IMPORT_RULES:
                qual = f"{key[0]}.{key[1]}"
                try:
                    out = hooks.call_rule(rf[key], text)
                except Exception:
                    res["crashed"][qual] = res["crashed"].get(qual, 0) + 1
                    continue
                if isinstance(out, str) and out != text:
                    variants.append((qual, out, None))
            for label, opts in (("format_code(safe)", {"safe": True}), ("format_code", {}), ("format_code(keep_imports)", {"safe": True, "keep_imports": True})):
                if label == "format_code(keep_imports)" and kind != "init":
                    continue
                out, crash, steps = trace.traced_format(text, opts)
                if crash or out is None:
                    res["crashed"][label] = res["crashed"].get(label, 0) + 1
                    continue
                if out != text:
                    variants.append((label, out, steps))
            if kind == "init" or ci % 5 == 0:
                try:
                    m["main"].format_file(path, safe=True)
                    out = path.read_text(encoding="utf-8")
                    if out != text:
                        # the same options through format_code, traced: when the result is the same text its steps attribute a divergence
                        tout, tcrash, tsteps = trace.traced_format(text, {"safe": True, "keep_imports": path.name == "__init__.py"})
                        variants.append(("format_file(safe)", out, tsteps if tout == out else None))
                except Exception:
                    res["crashed"]["format_file"] = res["crashed"].get("format_file", 0) + 1
            ran = {}
            for label, out, steps in variants:
                res["rewrites"] += 1
                res["fired"][label] = res["fired"].get(label, 0) + 1
                res["nontrivial"].append(env.digest(label + text + json.dumps(files, sort_keys=True)))
                if out not in ran:
                    path.write_text(out, encoding="utf-8")
                    ran[out] = child(root, "--run", *run)
                    res["executed_variants"] += 1
                after = ran[out]
                res["events_compared"] += len(base["events"])
                if same(base, after):
                    if len(res["samples"]) < 1 and len(text) < 900 and label.startswith("format_code"):
                        res["samples"].append({"client": text, "formatted": out, "events": len(base["events"]), "entry": label})
                    continue
                rule, before_text, after_text = label, text, out
                if steps:  # attribute to the first step whose output no longer agrees with the original
                    rule = None
                    for s in steps:
                        if s["out"] not in ran:
                            path.write_text(s["out"], encoding="utf-8")
                            ran[s["out"]] = child(root, "--run", *run)
                        if not same(base, ran[s["out"]]):
                            rule, before_text, after_text = s["rule"], s["in"], s["out"]
                            if rule.startswith("processing.chain["):  # which component alone reproduces a divergence on the step's input?
                                for part in rule[len("processing.chain["):-1].split("+"):
                                    key = next((k for k in rf if k[1] == part), None)
                                    if key is None:
                                        continue
                                    try:
                                        pout = hooks.call_rule(rf[key], s["in"])
                                    except Exception:
                                        continue
                                    if isinstance(pout, str) and pout != s["in"]:
                                        if pout not in ran:
                                            path.write_text(pout, encoding="utf-8")
                                            ran[pout] = child(root, "--run", *run)
                                        if not same(base, ran[pout]):
                                            rule, after_text = f"{key[0]}.{key[1]}", pout
                                            break
                            break
                    parts = set(rule[len("processing.chain["):-1].split("+")) if rule and rule.startswith("processing.chain[") else {rule}
                    if rule is not None and not (parts & IMPORT_RULE_NAMES):
                        res["left_to_c01"] += 1  # some other rule changed the behaviour: not an import normalisation
                        continue
                from . import c02

                if len(res["violations"]) < 40:
                    res["violations"].append({
                        "kind": "name_resolves_to_another_object", "rule": rule or label, "input": text, "before": before_text, "after": after_text,
                        "detail": {"entry": label, "client_kind": kind, "difference": first_difference(base, ran[after_text] if after_text in ran else after),
                                   "text_diff": c02._text_diff(before_text, after_text),
                                   "world": files},
                        "replay": {"fn": "harness.checks.c18:w_world", "arg": {"world": arg["world"], "files": files, "info": info, "clients": ci + 1,
                                                                               "forced": {str(ci): {"kind": kind, "text": text}}, "only": ci}}})
            path.write_text(text, encoding="utf-8")
    finally:
        os.chdir(cwd)
        shutil.rmtree(root, ignore_errors=True)
    if arg.get("only") is not None:
        res["violations"] = [v for v in res["violations"] if v["replay"]["arg"]["only"] == arg["only"]]
    return res


# --------------------------------------------------------------------------------- hand-written probes
# (world files, client kind, client): small worlds around one import-normalisation decision each
_M = {"al_p.py": "shared = ('al_p', 'shared')\nfa = ('al_p', 'fa')\njson = ('al_p', 'json')\nPath = ('al_p', 'Path')\nqueue = ('al_p', 'queue')\n",
      "be_p.py": "from al_p import fa\nfrom al_p import shared as shared_b\nimport al_p as al\nfb = ('be_p', 'fb')\n",
      "pk_p/__init__.py": "from .core import *\nfrom . import core\nKP = ('pk_p', 'KP')\n",
      "pk_p/core.py": "from .helpers import helper\n__all__ = ['core_fn', 'KC']\n__all__ += ['extra_fn']\n__all__.append('appended_fn')\ncore_fn = ('pk_p.core', 'core_fn')\nKC = ('pk_p.core', 'KC')\n"
                      "extra_fn = ('pk_p.core', 'extra_fn')\nappended_fn = ('pk_p.core', 'appended_fn')\nhidden_fn = ('pk_p.core', 'hidden_fn')\n",
      "pk_p/helpers.py": "helper = ('pk_p.helpers', 'helper')\n",
      "pk_p/tup.py": "__all__ = ('t1',) + ('t2',)\nt1 = ('pk_p.tup', 't1')\nt2 = ('pk_p.tup', 't2')\nt3 = ('pk_p.tup', 't3')\n",
      "helpers.py": "helper = ('top-level helpers', 'helper')\n",
      # modules of one name on several levels: pk_p/settings.py, pk_p/appdir0/settings.py (beside the client of an `init` probe) and a top-level settings.py
      "pk_p/settings.py": "VERSION = ('pk_p.settings', 'VERSION')\ndef load():\n    return ('pk_p.settings', 'load')\n",
      "pk_p/appdir0/settings.py": "VERSION = ('pk_p.appdir0.settings', 'VERSION')\ndef load():\n    return ('pk_p.appdir0.settings', 'load')\n",
      "settings.py": "VERSION = ('top-level settings', 'VERSION')\ndef load():\n    return ('top-level settings', 'load')\n",
      # __all__ bound on several paths of which one runs
      "branchy_p.py": "fast = ('branchy_p', 'fast')\nslow = ('branchy_p', 'slow')\nextra = ('branchy_p', 'extra')\ntry:\n    import json\n    __all__ = ['fast', 'slow', 'extra']\nexcept ImportError:\n    __all__ = ['slow']\n",
      "branchy2_p.py": "quick = ('branchy2_p', 'quick')\nsteady = ('branchy2_p', 'steady')\nif len('a') == 1:\n    __all__ = ['quick', 'steady']\nelse:\n    __all__ = ['steady']\n\n\ndef _unused():\n    __all__ = ['nothing']\n    return __all__\n",
      "extra_p/ga_p.py": "KG = ('ga_p', 'KG')\n"}
PROBES = [
    (_M, "root", "try:\n    from collections import *\nexcept ImportError:\n    pass\nsee('1:OrderedDict', OrderedDict)\n"),
    (_M, "root", "from pk_p.core import *\nsee('1:extra_fn', extra_fn)\nsee('2:appended_fn', appended_fn)\nsee('3:core_fn', core_fn)\n"),
    (_M, "root", "from pk_p.tup import *\nsee('1:t1', t1)\nsee('2:t2', t2)\n"),
    (_M, "root", "from pk_p import *\nsee('1:core_fn', core_fn)\nsee('2:KP', KP)\nsee('3:core', core)\n"),
    (_M, "member", "from .core import *\nfrom . import *\nsee('1:core_fn', core_fn)\nsee('2:KC', KC)\n"),
    (_M, "root", "from os.path import *\nfrom xml.dom.minidom import *\nsee('1:join', join)\nsee('2:Document', Document)\n"),
    (_M, "root", "from al_p import *\nsee('1:json', json)\nsee('2:Path', Path)\nsee('3:queue', queue)\nsee('4:fa', fa)\n"),
    (_M, "root", "import sys\nsys.path.insert(0, 'extra_p')\nimport ga_p\nsee('1:ga_p.KG', ga_p.KG)\n\n\ndef user():\n    import ga_p\n    return ga_p.KG\n\n\nsee('call:user', user())\n"),
    (_M, "member", "from . import core\nfrom .core import KC\nfrom . import helpers\nsee('1:core', core)\nsee('2:helpers', helpers)\nsee('3:KC', KC)\n"),
    (_M, "root", "from __future__ import annotations\nfrom be_p import fa, fb\nsee('1:fa', fa)\nsee('2:fb', fb)\n"),
    (_M, "root", "from pk_p.core import helper, KC\nsee('1:helper', helper)\nsee('2:KC', KC)\n"),
    (_M, "root", "from pk_p.core import *\nfrom pk_p.tup import *\nsee('1:KC', KC)\nsee('2:t1', t1)\n"),
    (_M, "root", "__version__ = '1.0'\nimport os\n\n\ndef user():\n    import json\n    see('1:json', json)\n    return json.dumps(1)\n\n\nsee('call:user', user())\nsee('2:os', os)\n"),
    (_M, "root", "import os\nfrom al_p import json\n\n\ndef user():\n    import json\n    see('1:json', json)\n    return json.dumps(1)\n\n\nsee('call:user', user())\nsee('2:json', json)\n"),
    (_M, "root", "from math import *\nsee('1:pi', pi)\nfrom math import *\nsee('2:floor', floor)\n"),
    (_M, "root", "from __future__ import annotations\nsee('0:len', len)\n\n\ndef user():\n    import json\n    from os import sep\n    return json.dumps(sep)\n\n\nsee('call:user', user())\n"),
    (_M, "root", "from __future__ import annotations\nif True:\n    from typing import Optional\nsee('1:Optional', Optional)\n"),
    (_M, "root", "import os\n\n\ndef first():\n    return 1\n\n\nfrom al_p import *\nfrom be_p import fb\nsee('1:shared', shared)\nsee('2:fb', fb)\nsee('3:os', os)\n"),
    (_M, "root", "def one():\n    import os\n    see('1:os', os)\n    return os.sep\n\n\ndef two():\n    import os\n    see('2:os', os)\n    return os.sep\n\n\nsee('call', one() + two())\n"),
    (_M, "root", "import collections as m\nsee('1:m', m)\nimport textwrap as m\nsee('2:m', m)\n"),
    (_M, "root", "import os.path\nimport xml.dom.minidom\nsee('1:os.sep', os.sep)\nsee('2:xml', xml)\n"),
    (_M, "root", "from branchy_p import *\nsee('1:fast', fast)\nsee('2:slow', slow)\nsee('3:extra', extra)\n"),
    (_M, "root", "from branchy2_p import *\nsee('1:quick', quick)\nsee('2:steady', steady)\n"),
    (_M, "init", "from .settings import VERSION\nsee('0:VERSION', VERSION)\n\n\ndef plugin_settings():\n    from .settings import load\n    return load()\n\n\ndef application_settings():\n    from ..settings import load\n    return load()\n\n\n"
                 "see('call:plugin', plugin_settings())\nsee('call:application', application_settings())\n"),
    (_M, "init", "import settings\nsee('0:settings', settings)\n\n\ndef plugin_settings():\n    from .settings import load\n    return load()\n\n\ndef application_settings():\n    from ..settings import load\n    return load()\n\n\n"
                 "def top_settings():\n    from settings import load\n    return load()\n\n\nsee('call:plugin', plugin_settings())\nsee('call:application', application_settings())\nsee('call:top', top_settings())\n"),
    (_M, "root", "def user():\n    import al_p\n    from be_p import fb\n    see('1:al_p', al_p)\n    return fb\n\n\nsee('call:user', user())\nimport al_p\nfrom be_p import fa\nsee('2:al_p.fa', al_p.fa)\nsee('3:fa', fa)\n"),
    (_M, "member", "from .core import KC\nfrom .tup import *\nfrom .core import core_fn\nsee('1:KC', KC)\nsee('2:core_fn', core_fn)\nsee('3:t1', t1)\n"),
    (_M, "root", "import json\nfrom al_p import *\nimport json\nsee('1:json', json)\nsee('2:fa', fa)\n"),
    (_M, "root", "from al_p import *\nfrom be_p import shared_b, fa\nsee('1:shared', shared)\nsee('2:shared_b', shared_b)\nsee('3:fa', fa)\n"),
    (_M, "root", "import al_p\nfrom al_p import json\nfrom be_p import al, fa as json\nsee('1:json', json)\nsee('2:al', al)\n"),
    (_M, "init", "from ..core import KC\nfrom .. import core\nfrom ..helpers import helper\nfrom ..core import *\nsee('1:KC', KC)\nsee('2:helper', helper)\nsee('3:core_fn', core_fn)\nsee('4:core', core)\n"),
]


# --------------------------------------------------------------------------------- parent side
def main() -> int:
    from .. import pool

    v = verdict.Verdict(PROP)
    thorough = env.tier() == "thorough"
    tasks = [{"world": [env.seed(), "C18", i], "clients": 12 if thorough else 8} for i in range(700 if thorough else 64)]
    for i, (files, kind, client) in enumerate(PROBES):
        mods = sorted({f[:-3].replace("/", ".").replace(".__init__", "") for f in files if f.endswith(".py") and not f.startswith("extra")})
        tasks.append({"world": ["probe", i], "files": files, "info": {"suffix": "_p", "pkg": "pk_p", "modules": mods, "extra_dir": "extra_p"}, "clients": 1,
                      "forced": {"0": {"kind": kind, "text": client}}})
    tot = {}
    with pool.Pool() as p:
        verdict.run_witnesses(v, p)
        reps = p.map("harness.checks.c18:w_world", tasks, cpu_s=1500)
        verdict.pool_failures(v, reps, "C18 worlds")
        for rep in reps:
            if rep.get("status") == "ok":
                _merge(tot, rep["value"])
    v.extend(tot.get("violations", []))
    if tot.get("rewrites", 0) == 0:
        v.inconclusive_because("no import rule changed any in-class client")
    if tot.get("in_class", 0) < 0.4 * max(1, tot.get("clients", 0)):
        v.inconclusive_because("more than 60% of the generated clients do not run (generator problem)")
    fired = tot.get("fired", {})
    cov = {
        "evaluations": tot.get("rewrites", 0),
        "distinct_nontrivial": len(set(tot.get("nontrivial", []))),
        "rule": "a case = one entry point (an import rule alone, format_code safe / default / keep_imports, format_file) applied to one in-class client of one world; "
                "non-trivial = the text changed, so the rewritten client was executed in a fresh child process and its see() events compared; distinct by digest of "
                "(entry, client, world)",
        "samples": tot.get("samples", [])[:2] or [{"note": "none"}],
        "worlds": tot.get("worlds"), "clients": {k: tot.get(k) for k in ("clients", "in_class", "rejects", "reject_reasons", "kinds")},
        "child_executions_of_rewritten_clients": tot.get("executed_variants"), "name_resolutions_compared": tot.get("events_compared"),
        "fired_per_entry": fired, "import_rules_never_fired": sorted(IMPORT_RULE_NAMES - set(fired)), "crashes": tot.get("crashed"),
        "divergences_attributed_to_non_import_rules_left_to_C01": tot.get("left_to_c01"),
    }
    return v.finish(cov, assumptions=["side effects of importing a module that is no longer imported are not compared (only what names resolve to and the exit status)",
                                      "world packages are pure Python; every world object has a unique (module, qualname) or value"])


def _merge(total, part):
    for k, val in part.items():
        if isinstance(val, bool):
            continue
        if isinstance(val, int):
            total[k] = total.get(k, 0) + val
        elif isinstance(val, list):
            total.setdefault(k, []).extend(val)
        elif isinstance(val, dict):
            d = total.setdefault(k, {})
            for kk, vv in val.items():
                d[kk] = d.get(kk, 0) + vv


def replay(rec) -> int:
    return verdict.generic_replay(PROP, rec)
