"""C19 - renaming is consistent and capture-free.

Oracles: (1) the execution oracle on programs whose identifiers are drawn adversarially and bound in every way Python
allows, every binding printed; (2) a structural alpha-equivalence check on compiled code: when a rule only renames, the
instruction streams of all code objects must be identical up to a per-namespace *bijective* renaming (a split binding
or two bindings merged into one name change the name tables), renamings must agree between a closure and its enclosing
scope and module-wide for globals, and a new name must not be a keyword or builtin.
"""
from __future__ import annotations

import builtins
import dis
import keyword

from .. import env, verdict
from . import c02

PROP = "C19"
RULES = [("fixes", "align_variable_names_with_convention"), ("fixes", "undefine_unused_variables"), ("fixes", "remove_duplicate_functions"),
         ("object_oriented", "move_staticmethod_static_scope"), ("object_oriented", "remove_unused_self_cls"), ("fixes", "implicit_dict_keys_values_items"),
         ("performance", "replace_subscript_looping"), ("fixes", "replace_nested_loops_with_set_list_comp"), ("abstractions", "simplify_if_control_flow"),
         ("abstractions", "overused_constant")]
BASES = ["fooBar", "myValue", "dataItem", "userName"]


def variants(base):
    import re

    words = re.findall(r"[A-Z]?[a-z]+", base)
    snake = "_".join(w.lower() for w in words)
    return [base, snake, base[0].upper() + base[1:], snake.upper(), "_" + base, "__" + base, base + "_", snake.replace("_", ""), snake + "2", "_" + snake]


SPECIAL = ["list", "max", "Type", "match", "type", "case", "pyrefact_overused_constant_0", "var_1", "d_k", "seq_i", "i", "j", "k", "x", "_", "__", "id", "input", "self", "cls"]


def make_program(parts):
    import random

    r = random.Random(":".join(str(p) for p in parts))
    base = r.choice(BASES)
    pool = variants(base) + r.sample(SPECIAL, 6)
    r.shuffle(pool)
    names = iter(pool)
    take = lambda: next(names)  # noqa: E731
    a, b, c, d, e, f, g, h = (take() for _ in range(8))
    lines = ["def t(k):", "    print('t', k)", "    return k", ""]
    forms = r.sample(range(16), r.randint(4, 8))
    out = []
    fresh = r.random() < 0.5  # every form gets names of its own: each name is bound in one way only
    for fi, form in enumerate(forms):
        if fresh:
            words = ["alphaItem", "betaValue", "gammaName", "deltaCount", "sigmaList", "omegaFlag", "kappaSize", "thetaNode"]
            style = lambda w, k: [w, variants(w)[1], variants(w)[2], variants(w)[3], "_" + w, w + "_", variants(w)[1] + "2"][(k + fi) % 7]  # noqa: E731
            a, b, c, d, e, f, g, h = (style(w, k) + str(fi) for k, w in enumerate(words))
        if form == 0:
            out += [f"{a} = 1", f"{b} = 2", f"print({a}, {b})", f"{a} = {a} + {b}", f"print({a})"]
        elif form == 1:
            out += [f"def {c}({a}, {b}=2):", f"    {d} = {a} * {b}", f"    return {d}", f"print({c}(3), {c}(3, {b}=4), {c}({a}=1))"]
        elif form == 2:
            a, d = (n if n.strip("_") else "attr" + n.replace("_", "u") for n in (a, d))  # `_` / `__` are throwaway names, not attributes anyone reads
            out += [f"class {e}:", f"    {a} = 5", f"    def {f}(self, {b}):", f"        self.{d} = {b}", f"        return self.{d} + self.{a}", f"obj_{form} = {e}()", f"print(obj_{form}.{f}(1), obj_{form}.{d}, {e}.{a})"]
        elif form == 3:
            out += [f"for {g} in range(2):", f"    {h} = {g} * 2", f"    print({g}, {h})", f"print({g}, {h})"]
        elif form == 4:
            out += [f"{a} = 0", f"def bump_{form}():", f"    global {a}", f"    {a} += 1", f"    return {a}", f"print(bump_{form}(), bump_{form}(), {a})"]
        elif form == 5:
            out += [f"def outer_{form}():", f"    {b} = 10", f"    def inner():", f"        nonlocal {b}", f"        {b} += 1", f"        return {b}", f"    return inner(), {b}", f"print(outer_{form}())"]
        elif form == 6:
            out += [f"{c}_list = [{g} * 2 for {g} in range(3)]", f"print({c}_list, [({g}, {h}) for {g} in range(2) for {h} in range(2)])"]
        elif form == 7:
            out += [f"import os as {d}", f"from os import path as {e}", f"print({d}.sep == {e}.sep)"]
        elif form == 8:
            out += [f"{a}: int = 3", f"{a} += 1", f"with open(__file__) as {b}:", f"    {c} = len({b}.read()) > 0", f"print({a}, {c})"]
        elif form == 9:
            out += [f"def k_{form}(**kw):", f"    return sorted(kw.items())", f"print(k_{form}({a}=1, {b}=2))"]
        elif form == 10:
            out += [f"if ({a} := 4) > 3:", f"    print({a})", f"try:", f"    1 / 0", f"except ZeroDivisionError as {b}:", f"    print(type({b}).__name__)"]
        elif form == 11:
            out += [f"{a}, ({b}, *{c}) = 1, (2, 3, 4)", f"print({a}, {b}, {c})", f"del {a}", f"{a} = 9", f"print({a})"]
        elif form == 14:  # a parameter of a nested function (every parameter kind) that shadows a variable of the enclosing scope
            kind = r.choice(["kwonly", "posonly", "vararg", "kwarg", "plain", "default"])
            sig, call, use = {"kwonly": (f"*, {a}", f"{a}=5", a), "posonly": (f"{a}, /", "5", a), "vararg": (f"*{a}", "5, 6", f"len({a})"), "kwarg": (f"**{a}", "k=5", f"sorted({a})"),
                              "plain": (a, "5", a), "default": (f"{a}=7", "", a)}[kind]
            out += [f"def outer_{form}():", f"    {a} = 100", f"    def inner({sig}):", f"        return {use}", f"    return inner({call}), {a}", f"print(outer_{form}())",
                    f"{b} = 200", f"def shadow_{form}({sig.replace(a, b)}):", f"    return {use.replace(a, b)}", f"print(shadow_{form}({call.replace(a, b)}), {b})"]
        elif form == 15:  # attributes of classes nested in a class or in a function, reached from outside
            a, b, c, d = (n if n.strip("_") else "attr" + n.replace("_", "u") for n in (a, b, c, d))  # `_` / `__` are throwaway names, not attributes anyone reads
            out += [f"class Outer_{form}:", f"    class Meta:", f"        {a} = ('x',)", f"        {b} = 3", f"    {c} = 1",
                    f"def make_{form}():", f"    class Config:", f"        {d} = 2", f"    return Config",
                    f"print(Outer_{form}.Meta.{a}, Outer_{form}.Meta.{b}, Outer_{form}.{c}, make_{form}().{d})"]
        elif form == 12:
            out += [f"def {c}(x):", f"    return x + 1", f"def {d}(y):", f"    return y + 1", f"print({c}(1), {d}(2))", f"{e} = {c}", f"print({e}(3))"]
        else:
            out += [f"{a} = [3, 1]", f"{b} = {{}}", f"for {g} in {a}:", f"    if {g} not in {b}:", f"        {b}[{g}] = []", f"    {b}[{g}].append({g})", f"print({b})",
                    f"{f} = lambda {h}: {h} + len({a})", f"print({f}(1))"]
        out.append("")
    text = "\n".join(lines + out) + "\n"
    return text


COLLISION_PROBES = [
    # names that pyrefact generates, already taken by the program (for example from an earlier run of the tool)
    "PYREFACT_OVERUSED_CONSTANT_0 = '0: the first shared message'\n\n\ndef describe_a(x):\n    return ['1: another message, shared by all', x, 'a']\n\n\ndef describe_b(x):\n    return ('1: another message, shared by all', x, 'b')\n\n\n"
    "def describe_c(x):\n    return {'1: another message, shared by all': x}\n\n\ndef describe_d(x):\n    return '1: another message, shared by all' * x\n\n\ndef describe_e(x):\n    return '1: another message, shared by all'[x:]\n\n\n"
    "print(PYREFACT_OVERUSED_CONSTANT_0)\nprint(describe_a(1), describe_b(2), describe_c(3), describe_d(2), describe_e(20))\nprint(PYREFACT_OVERUSED_CONSTANT_0.upper())\n",
    "pyrefact_overused_constant_0 = 5\n\n\ndef fa():\n    return 'a long shared text, repeated often' + 'a'\n\n\ndef fb():\n    return 'a long shared text, repeated often' + 'b'\n\n\ndef fc():\n    return 'a long shared text, repeated often' + 'c'\n\n\n"
    "def fd():\n    return 'a long shared text, repeated often' + 'd'\n\n\ndef fe():\n    return 'a long shared text, repeated often' + 'e'\n\n\nprint(fa(), fb(), fc(), fd(), fe(), pyrefact_overused_constant_0)\n",
    # a variable that shadows a builtin, referenced (as the builtin) before it is assigned
    "print(type(1).__name__)\nfirst, *type = 1, 2, 3\nprint(first, type)\n",
    "print(len('ab'))\n\n\ndef run():\n    print(max(1, 2))\n    return 1\n\n\nrun()\nmax = run()\nlen = 3\nprint(max, len)\n",
    # a name whose conventional spelling is already taken by a name that stays as it is: the rename must not happen (or must not capture)
    "def run():\n    foo_bar = 1\n    fooBar = 2\n    print(foo_bar, fooBar)\n\n\nrun()\n",
    "def run():\n    Max = 3\n    print(Max, max(1, 2))\n\n\nrun()\n",
    "def run():\n    List = [1]\n    print(List, list((2, 3)))\n\n\nrun()\n",
    "import os\n\n\ndef run():\n    OS = 1\n    return OS, os.sep == os.sep\n\n\nprint(run())\n",
    "def run(data_item, dataItem=2):\n    return data_item, dataItem\n\n\nprint(run(1), run(1, dataItem=3))\n",
    "def run():\n    Type = 'T'\n    return Type, type(1).__name__ == 'int'\n\n\nprint(run())\n",
    "def run():\n    my_value = 1\n    for myValue in range(2):\n        print(my_value, myValue)\n    return my_value\n\n\nprint(run())\n",
    "class Holder:\n    def method_one(self):\n        return 1\n\n    def methodOne(self):\n        return 2\n\n\nprint(Holder().method_one(), Holder().methodOne())\n",
    "def helper_fn():\n    return 1\n\n\ndef run():\n    helperFn = 5\n    return helperFn + helper_fn()\n\n\nprint(run())\n",
    "def run():\n    Print = 3\n    print(Print)\n    Len = [1, 2]\n    print(len(Len))\n\n\nrun()\n",
    "def run():\n    Is = 1\n    In = 2\n    Not = 3\n    return Is + In + Not\n\n\nprint(run())\n",
    "def run():\n    value = 1\n    def inner():\n        Value = 2\n        return value + Value\n    return inner()\n\n\nprint(run())\n",
]


# --------------------------------------------------------------------------------- structural check
LOCAL = {"LOAD_FAST", "STORE_FAST", "DELETE_FAST", "LOAD_FAST_CHECK", "LOAD_FAST_AND_CLEAR"}
GLOBALNS = {"LOAD_GLOBAL", "STORE_GLOBAL", "DELETE_GLOBAL", "LOAD_NAME", "STORE_NAME", "DELETE_NAME"}
ATTR = {"LOAD_ATTR", "STORE_ATTR", "DELETE_ATTR", "LOAD_METHOD", "LOAD_SUPER_ATTR"}
# MAKE_CELL / LOAD_CLOSURE / COPY_FREE_VARS follow the (name-sorted) cell tables, whose order a renaming may permute: not paired positionally
DEREF = {"LOAD_DEREF", "STORE_DEREF", "DELETE_DEREF", "LOAD_FROM_DICT_OR_DEREF"}
PERMUTABLE = {"LOAD_CLOSURE", "MAKE_CELL", "COPY_FREE_VARS"}
IMPORT = {"IMPORT_NAME", "IMPORT_FROM"}
RESERVED = set(keyword.kwlist) | set(dir(builtins))


def _code_objects(code, path="<module>"):
    yield path, code
    k = 0
    for const in code.co_consts:
        if hasattr(const, "co_code"):
            k += 1
            yield from _code_objects(const, f"{path}/{k}")


def _only_builtin_references(a, b, global_stored):
    """`@classmethod` -> `@staticmethod`: two references to builtins that the program never binds are not bindings that were merged (the rule changed which builtin is
    used; whether that is right is a question for the execution oracle)."""
    return hasattr(builtins, a) and hasattr(builtins, b) and a not in global_stored and b not in global_stored


def alpha_check(before, after):
    """None if `after` is not a pure renaming of `before` (different instruction streams); else a list of problems (empty = alpha-equivalent)."""
    try:
        cb, ca = compile(before, "<b>", "exec"), compile(after, "<a>", "exec")
    except (SyntaxError, ValueError):
        return None
    objs_b, objs_a = list(_code_objects(cb)), list(_code_objects(ca))
    if len(objs_b) != len(objs_a):
        return None
    problems = []
    global_map = {}
    maps = {}
    global_stored = set()
    # `_` is the conventional throwaway: several write-only bindings may share it. It only counts as a collision when some code reads `_`.
    underscore_read = any(i.opname.startswith("LOAD_") and i.argval == "_" for _, x in objs_a for i in dis.get_instructions(x))
    for (path, xb), (_, xa) in zip(objs_b, objs_a):
        ib = [i for i in dis.get_instructions(xb) if i.opname not in ("RESUME", "CACHE")]
        ia = [i for i in dis.get_instructions(xa) if i.opname not in ("RESUME", "CACHE")]
        if [i.opname for i in ib] != [i.opname for i in ia]:
            return None
        local_ns = {}
        stored = {("local", v) for v in xb.co_varnames[: xb.co_argcount + xb.co_kwonlyargcount]}
        # a class body is neither optimised nor the module: the names it stores are entries of the class namespace (attributes), not module globals
        class_locals = {i.argval for i in ib if i.opname in ("STORE_NAME", "DELETE_NAME")} if path != "<module>" and not xb.co_flags & 0x2 else set()
        for p, q in zip(ib, ia):
            op = p.opname
            if op in LOCAL:
                ns = "local"
            elif op in GLOBALNS and str(p.argval) in class_locals:
                ns = "classbody"
            elif op in GLOBALNS:
                ns = "global" if path != "<module>" or True else "global"
            elif op in ATTR:
                ns = "attr"
            elif op in DEREF:
                ns = "deref"
            elif op in PERMUTABLE:
                continue
            elif op in IMPORT:
                if p.argval != q.argval:
                    return None
                continue
            else:
                if op == "KW_NAMES" or (op == "LOAD_CONST" and isinstance(p.argval, tuple) and all(isinstance(x, str) for x in p.argval) and p.argval != q.argval):
                    if isinstance(p.argval, tuple) and isinstance(q.argval, tuple) and len(p.argval) == len(q.argval):
                        for o, n in zip(p.argval, q.argval):
                            if o != n:
                                problems.append({"problem": "keyword_argument_name_changed", "where": path, "old": o, "new": n})
                    continue
                if p.argval != q.argval and not hasattr(p.argval, "co_code"):
                    return None
                continue
            o, n = str(p.argval), str(q.argval)
            if op.startswith(("STORE_", "DELETE_")):
                stored.add((ns, o))
                if ns == "global":
                    global_stored.add(o)
            m = local_ns.setdefault(ns, {})
            if o in m and m[o] != n:
                problems.append({"problem": "one_binding_split_into_two_names", "where": path, "namespace": ns, "old": o, "new": sorted({m[o], n})})
            m.setdefault(o, n)
            if ns == "global":
                if o in global_map and global_map[o] != n:
                    problems.append({"problem": "global_renamed_inconsistently_between_scopes", "where": path, "old": o, "new": sorted({global_map[o], n})})
                global_map.setdefault(o, n)
        for ns, m in local_ns.items():
            inv = {}
            for o, n in m.items():
                if n in inv and inv[n] != o and not (n == "_" and not underscore_read) and not (ns == "global" and _only_builtin_references(inv[n], o, global_stored)):
                    problems.append({"problem": "two_bindings_merged_into_one_name", "where": path, "namespace": ns, "old": sorted({inv[n], o}), "new": n})
                inv[n] = o
                if o != n and ns != "attr" and n in RESERVED and (ns, o) in stored:  # a *binding* got a reserved name (not a reference to another builtin)
                    problems.append({"problem": "new_name_is_keyword_or_builtin", "where": path, "old": o, "new": n})
        maps[path] = local_ns
    inv = {}
    for o, n in global_map.items():
        if n in inv and inv[n] != o and not (n == "_" and not underscore_read) and not _only_builtin_references(inv[n], o, global_stored):
            problems.append({"problem": "two_bindings_merged_into_one_name", "where": "<globals>", "old": sorted({inv[n], o}), "new": n})
        inv[n] = o
    # closures: a free variable of a nested code object is the cell variable of an enclosing one
    for path, ns in maps.items():
        parent = path.rsplit("/", 1)[0] if "/" in path else None
        while parent:
            pm = maps.get(parent, {})
            for o, n in ns.get("deref", {}).items():
                for pns in ("deref", "local"):
                    if o in pm.get(pns, {}) and pm[pns][o] != n:
                        problems.append({"problem": "closure_variable_renamed_differently_from_its_definition", "where": path, "old": o, "new": sorted({pm[pns][o], n})})
            parent = parent.rsplit("/", 1)[0] if "/" in parent else None

    def builtin_swap(pr):
        # `@classmethod` stays in one class and becomes `@staticmethod` in another: references to builtins that the program never binds are not a binding
        # that was split or renamed here and not there (whether the swap is right is a question for the execution oracle)
        if pr.get("problem") not in ("global_renamed_inconsistently_between_scopes", "one_binding_split_into_two_names") or pr.get("namespace", "global") != "global":
            return False
        names = {pr.get("old")} | set(pr.get("new") or ())
        return all(isinstance(n, str) and hasattr(builtins, n) and n not in global_stored for n in names)

    return [pr for pr in problems if not builtin_swap(pr)]


# --------------------------------------------------------------------------------- worker side
def w_rename(arg):
    from .. import hooks, oracle_exec, trace

    m = hooks.mods()
    rf = hooks.rule_functions()
    res = {"programs": 0, "in_class": 0, "rule_calls": 0, "changed": 0, "pure_renamings": 0, "violations": [], "nontrivial": [], "samples": [], "fired": {}, "crashed": 0}
    for case in arg["cases"]:
        text = case["text"]
        res["programs"] += 1
        base = oracle_exec.run_program(text)
        if not oracle_exec.in_class(text, base):
            continue
        res["in_class"] += 1
        pairs = []
        for key in RULES:
            if key not in rf or (arg.get("only_rules") and f"{key[0]}.{key[1]}" not in arg["only_rules"]):
                continue
            try:
                out = hooks.call_rule(rf[key], text, frozenset(case.get("preserve") or ()))
            except Exception:
                res["crashed"] += 1
                continue
            res["rule_calls"] += 1
            if out != text:
                pairs.append((f"{key[0]}.{key[1]}", text, out))
        if arg.get("pipeline", True):
            out, crash, steps = trace.traced_format(text, case.get("options"))
            for st in steps:
                if st["rule"] in {f"{a}.{b}" for a, b in RULES} and st["in"] != text:
                    pairs.append((st["rule"], st["in"], st["out"]))
        for rule, before, after in pairs:
            res["changed"] += 1
            res["fired"][rule] = res["fired"].get(rule, 0) + 1
            res["nontrivial"].append(env.digest(rule + before))
            b = base if before == text else oracle_exec.run_program(before)
            if b[0] != "ok":
                continue
            a = oracle_exec.run_program(after, cpu_s=oracle_exec.budget_for(b))
            replay = {"fn": "harness.checks.c19:w_rename", "arg": {"cases": [case], "only_rules": [rule], "pipeline": before != text}}
            problems = alpha_check(before, after)
            if problems is not None:
                res["pure_renamings"] += 1
            if not oracle_exec.agrees(b, a):
                if len(res["violations"]) < 60:
                    res["violations"].append({"kind": "step_changes_behaviour", "rule": rule, "input": before, "before": before, "after": after,
                                              "detail": {"before_stdout": b[1][-300:], "after_status": a[0], "after_stdout": a[1][-300:], "first_difference": c02._first_diff(b[1], a[1]),
                                                         "text_diff": c02._text_diff(before, after), "structural_problems": problems}, "replay": replay})
            elif problems:
                if len(res["violations"]) < 60:
                    res["violations"].append({"kind": "binding_structure_changed", "rule": rule, "input": before, "before": before, "after": after,
                                              "detail": {"structural_problems": problems[:6], "text_diff": c02._text_diff(before, after)}, "replay": replay})
            elif len(res["samples"]) < 1 and problems == []:
                res["samples"].append({"rule": rule, "before": before[-500:], "after": after[-500:], "alpha_equivalent": True})
    return res


# --------------------------------------------------------------------------------- parent side
def main() -> int:
    from .. import pool
    from ..gen import programs

    v = verdict.Verdict(PROP)
    thorough = env.tier() == "thorough"
    cases = [{"id": f"ident{i}", "text": make_program((env.seed(), "C19", i)), "options": [{}, {"safe": True}][i % 2]} for i in range(4000 if thorough else 320)]
    for i, t in enumerate(COLLISION_PROBES):
        cases.append({"id": f"collision{i}", "text": t, "options": {}})
    for i in range(800 if thorough else 90):
        text, names = programs.program((env.seed(), "C19-G1", i), style="untidy")
        cases.append({"id": f"untidy{i}", "text": text, "options": {}})
    # one line of the program opts out of formatting: a renaming that cannot touch that line must leave the whole binding alone
    from . import c20

    ri = env.rng(PROP, "ignored-lines")
    for i, t in enumerate(list(c20.RENAMERS) + [c["text"] for c in cases[:600 if thorough else 120:2]]):
        idx = c20.annotatable_lines(t)
        if not idx:
            continue
        lines = t.split("\n")
        for k in (idx if i < len(c20.RENAMERS) else ri.sample(idx, min(2, len(idx)))):
            annotated = "\n".join(l + "  # pyrefact: ignore" if j == k else l for j, l in enumerate(lines))
            cases.append({"id": f"ignored_line{i}:{k}", "text": annotated, "options": [{}, {"safe": True}][k % 2]})
    tot = {}
    with pool.Pool() as p:
        verdict.run_witnesses(v, p)
        reps = p.map("harness.checks.c19:w_rename", [{"cases": cases[i:i + 4]} for i in range(0, len(cases), 4)], cpu_s=1500)
        verdict.pool_failures(v, reps, "C19 renaming")
        for rep in reps:
            if rep.get("status") == "ok":
                c02._merge(tot, rep["value"])
    v.extend(tot.get("violations", []))
    if tot.get("pure_renamings", 0) == 0:
        v.inconclusive_because("no pure renaming step was observed: the structural monitor saw nothing")
    if tot.get("in_class", 0) < 0.5 * max(1, tot.get("programs", 0)):
        v.inconclusive_because("more than half of the generated programs were rejected by the class filter")
    cov = {
        "evaluations": tot.get("rule_calls", 0),
        "distinct_nontrivial": len(set(tot.get("nontrivial", []))),
        "rule": "a case = one naming rule applied to one in-class program (alone or as a pipeline step); non-trivial = the rule changed the text (both versions executed; "
                "pure renamings additionally checked for alpha-equivalence of the compiled code); distinct by (rule, program) digest",
        "samples": tot.get("samples", [])[:2] or [{"note": "none"}],
        "programs": {k: tot.get(k) for k in ("programs", "in_class", "crashed")},
        "steps_executed": tot.get("changed"), "pure_renaming_steps_checked_structurally": tot.get("pure_renamings"), "rules_fired": tot.get("fired"),
    }
    return v.finish(cov, assumptions=["identifiers come from an adversarial pool (camelCase / snake_case / UPPER / underscore variants of one word, builtins, soft keywords, generated-name prefixes)",
                                      "the structural check applies when the compiled instruction streams are identical up to names (a pure renaming)"])


def replay(rec) -> int:
    return verdict.generic_replay(PROP, rec)
