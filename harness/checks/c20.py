"""C20 - opt-out comments are honoured.

(a) skip_file: format_code returns the text byte for byte, format_file never opens the file for writing (audit hook),
--from-stdin echoes it. (b) every physical line carrying `# pyrefact: ignore` is present verbatim in the output, with the
same multiplicity and relative order; a lost line is attributed to the pipeline step that dropped it and to the back-end
(scheduled or direct edit) that touched it.
"""
from __future__ import annotations

import io
import os
import tokenize

from .. import env, verdict

PROP = "C20"
IGNORE = "  # pyrefact: ignore"
SKIP_SPELLINGS = ["# pyrefact: skip_file"]


def annotatable_lines(text):
    """Indices of physical lines to which a comment can be appended without changing the token stream otherwise."""
    lines = text.split("\n")
    try:
        base = [(t.type, t.string) for t in tokenize.generate_tokens(io.StringIO(text).readline) if t.type not in (tokenize.COMMENT, tokenize.NL)]
    except (tokenize.TokenError, IndentationError, SyntaxError):
        return []
    out = []
    for i, line in enumerate(lines):
        if not line.strip() or "#" in line or line.rstrip().endswith("\\"):
            continue
        cand = "\n".join(lines[:i] + [line + IGNORE] + lines[i + 1:])
        try:
            toks = [(t.type, t.string) for t in tokenize.generate_tokens(io.StringIO(cand).readline) if t.type not in (tokenize.COMMENT, tokenize.NL)]
        except (tokenize.TokenError, IndentationError, SyntaxError):
            continue
        if toks == base:
            out.append(i)
    return out


# programs in which a rule renames or deletes a definition that other lines refer to: every line is annotated in turn
RENAMERS = [
    "def first(x):\n    return x + 1\n\n\ndef second(x):\n    return x + 1\n\n\nprint(first(1))\nprint(second(2))\nvalue = second(3)\nprint(value)\n",
    "class Foo:\n    def asdf(self):\n        x = None\n        if 2 in {1, 2, 3}:\n            print(3)\n\n\ndef wsdf():\n    z = ()\n    if 2 in {1, 2, 3}:\n        print(3)\n\n\nwsdf()\nFoo().asdf()\n",
    "class lower_case:\n    someAttr = 1\n\n    def doThing(self, argOne):\n        localVar = argOne + 1\n        return localVar\n\n\ninstance = lower_case()\nprint(instance.doThing(2))\nprint(lower_case.someAttr)\n",
    "def run(items):\n    unusedThing = 3\n    for i in range(len(items)):\n        print(items[i])\n    total = 0\n    for item in items:\n        total += item\n    return total\n\n\nprint(run([1, 2]))\n",
    "import os, sys\nimport os\nfrom os import path, sep\n\n\ndef show():\n    import json\n    print(json.dumps(1), os.getcwd(), sep, path)\n\n\nshow()\nprint(sys.argv)\n",
]


# --------------------------------------------------------------------------------- worker side
def _blank_normal_form(line):
    """(code with its tabs expanded and the blanks before the comment removed, comment without trailing blanks): what is left of a line when only the
    blanks that the layout stages own are disregarded - the indentation width of tabs, the gap before the comment, the end of the line."""
    i = line.find("#")
    code, comment = (line, "") if i < 0 else (line[:i], line[i:])
    return code.expandtabs(4).rstrip(), comment.rstrip()


def w_ignore(arg):
    from .. import hooks, pipeline

    res = {"cases": 0, "annotated_lines": 0, "kept": 0, "violations": [], "nontrivial": [], "samples": [], "crashed": 0, "changed_runs": 0}
    for case in arg["cases"]:
        text = case["text"]
        lines = text.split("\n")
        marked = [i for i in case["lines"]]
        IGNORE = case.get("comment") or globals()["IGNORE"]  # the spelling of the comment in this case
        ann = "\n".join(l + IGNORE if i in marked else l for i, l in enumerate(lines))
        if not pipeline.valid_fragment(ann):
            continue
        obs = pipeline.observe_format(ann, case.get("options"), want=("rule", "direct", "sched"))
        if obs["crash"]:
            res["crashed"] += 1
            # the same module without the annotation formats fine: the opt-out comment itself makes the formatter fail, and the line is not carried over to anything
            plain = pipeline.observe_format(text, case.get("options"), want=("rule",))
            if not plain["crash"] and len(res["violations"]) < 80:
                res["violations"].append({
                    "kind": "formatter_fails_only_with_the_ignore_comment", "rule": (obs["crash"] or {}).get("rule"), "input": ann,
                    "detail": {"crash": {k: (obs["crash"] or {}).get(k) for k in ("exc", "msg", "rule")}, "lines": marked, "options": case.get("options")},
                    "replay": {"fn": "harness.checks.c20:w_ignore", "arg": {"cases": [case]}}})
            continue
        res["cases"] += 1
        out = obs["out"]
        if out != ann:
            res["changed_runs"] += 1
            res["nontrivial"].append(env.digest(ann))
        want = [lines[i] + IGNORE for i in marked]
        out_lines = out.split("\n")
        res["annotated_lines"] += len(want)
        # same multiplicity and relative order: the annotated lines must be a subsequence of the output lines
        pos, lost = 0, []
        for w in want:
            try:
                pos = out_lines.index(w, pos) + 1
                res["kept"] += 1
            except ValueError:
                lost.append(w)
        for w in lost:
            # attribute: first top-level step whose output no longer contains the line
            step = next((s for s in obs["steps"] if s["depth"] == 0 and s["out"] is not None and s["in"].split("\n").count(w) > s["out"].split("\n").count(w)), None)
            rule = step["rule"] if step else None
            direct = False
            sched_touched = False
            if step:
                direct = any(e for e in obs["edits"] if rule in e["stack"] and e["out"] is not None and e["in"].split("\n").count(w) > e["out"].split("\n").count(w))
                sched_touched = any(p for p in obs["passes"] if rule in p["stack"] + [""] and p.get("result") and p["source"].split("\n").count(w) > p["result"].split("\n").count(w))
            stripped_present = sum(l.strip() == w.strip() for l in out_lines) >= sum(l.strip() == w.strip() for l in ann.split("\n"))
            code_part = w.split("#")[0].strip()
            kind_of_loss = "re-indented" if stripped_present else ("comment_left_behind" if any(l.strip() == IGNORE.strip() for l in out_lines) else
                                                                 ("rewritten" if any(IGNORE.strip() in l for l in out_lines) else "deleted"))
            if len(res["violations"]) < 80:
                res["violations"].append({
                    "kind": "ignored_line_not_carried_over", "rule": rule, "input": ann,
                    "detail": {"line": w, "what_happened": kind_of_loss, "attributed_rule": rule, "direct_edit_backend": direct, "scheduled_backend": sched_touched,
                               "options": case.get("options"), "out": out[-1200:],
                               "line_present_up_to_tab_expansion_and_trailing_blanks": _blank_normal_form(w) in {_blank_normal_form(l) for l in out_lines if "#" in l}},
                    "replay": {"fn": "harness.checks.c20:w_ignore", "arg": {"cases": [case]}}})
        if not lost and out != ann and len(res["samples"]) < 1 and len(ann) < 400:
            res["samples"].append({"input": ann, "output": out, "annotated_lines_kept": len(want)})
    return res


def w_skip(arg):
    """skip_file through the library, the file entry point (audit hook) and --from-stdin."""
    import pathlib
    import shutil
    import subprocess
    import sys
    import tempfile

    from .. import hooks

    m = hooks.mods()
    main = m["main"]
    res = {"skip_cases": 0, "stdin_runs": 0, "violations": [], "nontrivial": []}
    events = []
    if not getattr(w_skip, "_hooked", False):
        w_skip._events, w_skip._active = [], [False]

        def audit(event, args):
            if event == "open" and w_skip._active[0]:
                mode = args[1] if len(args) > 1 else ""
                if isinstance(mode, str) and any(c in mode for c in "wax+"):
                    w_skip._events.append(str(args[0]))

        sys.addaudithook(audit)
        w_skip._hooked = True
    tmp = pathlib.Path(tempfile.mkdtemp(prefix="c20skip-"))
    try:
        for case in arg["cases"]:
            text = case["text"]
            replay = {"fn": "harness.checks.c20:w_skip", "arg": {"cases": [case]}}
            res["skip_cases"] += 1
            res["nontrivial"].append(env.digest(text))
            for opts in ({}, {"safe": True}, {"keep_imports": True, "max_line_length": 60}):
                try:
                    out = main.format_code(text, **opts)
                except Exception as exc:
                    out = f"<raised {type(exc).__name__}>"
                if out != text:
                    res["violations"].append({"kind": "skip_file_text_changed", "input": text, "detail": {"options": opts, "out": out[-800:]}, "replay": replay})
            path = tmp / "skipped.py"
            path.write_text(text, encoding="utf-8")
            del w_skip._events[:]
            w_skip._active[0] = True
            try:
                try:
                    rv = main.format_file(path, safe=False)
                except Exception as exc:
                    rv = f"<raised {type(exc).__name__}>"
            finally:
                w_skip._active[0] = False
            wrote = [p for p in w_skip._events if os.path.realpath(p) == os.path.realpath(str(path))]
            if wrote or path.read_text(encoding="utf-8") != text or rv:
                res["violations"].append({"kind": "skip_file_opened_for_writing", "input": text, "detail": {"return_value": rv, "wrote": bool(wrote)}, "replay": replay})
            if case.get("stdin"):
                proc = subprocess.run([sys.executable, "-m", "pyrefact", "--from-stdin"], input=text, capture_output=True, text=True, timeout=300)
                res["stdin_runs"] += 1
                if proc.stdout != text or proc.returncode != 0:
                    res["violations"].append({"kind": "stdin_mode_did_not_echo_skip_file", "input": text, "detail": {"stdout": proc.stdout[-600:], "rc": proc.returncode, "stderr": proc.stderr[-300:]}, "replay": replay})
    finally:
        shutil.rmtree(tmp, ignore_errors=True)
    return res


# --------------------------------------------------------------------------------- parent side
def main() -> int:
    from .. import pool
    from ..gen import corpus, hostile
    from . import c04, c09

    v = verdict.Verdict(PROP)
    thorough = env.tier() == "thorough"
    r = env.rng(PROP, "main")
    import textwrap

    ex = [(o, textwrap.dedent(t)) for o, t in corpus.repo_examples(3) if len(t) < 2000]
    sources = [(f"antagonist{i}", t) for i, t in enumerate(c09.ANTAGONISTS)] + (ex if thorough else r.sample(ex, 170))
    sources += [(f"zoo:{n}", hostile.CONSTRUCTS[n]) for n in sorted(hostile.CONSTRUCTS)][: 49 if thorough else 20]
    sources += [(f"rename{i}", t) for i, t in enumerate(RENAMERS)]
    cases = []
    for sid, text in sources:
        idx = annotatable_lines(text)
        if not idx:
            continue
        rr = env.rng(PROP, "lines", sid)
        singles = idx if thorough or sid.startswith("rename") else rr.sample(idx, min(len(idx), 7))
        for i in singles:
            cases.append({"id": f"{sid}:{i}", "text": text, "lines": [i], "options": rr.choice(c04.OPTION_VECTORS[:4])})
        # the annotated line is the very last one of a file without a final newline
        stripped = text.rstrip("\n")
        last = max((i for i in idx if i < len(stripped.split("\n"))), default=None)
        if last is not None and last == len(stripped.split("\n")) - 1:
            cases.append({"id": f"{sid}:last_no_newline", "text": stripped, "lines": [last], "options": {}})
        for k in range(2 if thorough else 1):
            sub = rr.sample(idx, min(len(idx), rr.randint(2, 5)))
            cases.append({"id": f"{sid}:subset{k}", "text": text, "lines": sorted(sub), "options": rr.choice(c04.OPTION_VECTORS[:4])})
    # every spelling that core.has_ignore_comment accepts (`#\s*pyrefact\s*:\s*(skip_file|ignore)`), not only the canonical one
    spellings = ["# pyrefact: {}", "#pyrefact: {}", "# pyrefact:{}", "#  pyrefact  :  {}", "#pyrefact:{}", "#\tpyrefact :{}"]
    for k, c in enumerate(cases):
        if k % 4 == 3:
            c["comment"] = "  " + spellings[1 + (k // 4) % (len(spellings) - 2)].format("ignore")  # (no tab inside: tabs outside literals are expanded by design)
    # blanks that the layout stages normalise, on the annotated line itself: after the comment, a tab before the comment, tabs as indentation
    for k, (sid, text) in enumerate(sources[: 60 if thorough else 24]):
        idx = annotatable_lines(text)
        if not idx:
            continue
        rr = env.rng(PROP, "blanks", sid)
        i = rr.choice(idx)
        form = k % 3
        if form == 0:
            cases.append({"id": f"{sid}:{i}:trailing_blanks", "text": text, "lines": [i], "options": {}, "comment": "  # pyrefact: ignore  " + " " * rr.randint(0, 2)})
        elif form == 1:
            cases.append({"id": f"{sid}:{i}:tab_before_comment", "text": text, "lines": [i], "options": {}, "comment": "\t# pyrefact: ignore"})
        else:
            tabbed = "\n".join("\t" * ((len(l) - len(l.lstrip(" "))) // 4) + l.lstrip(" ") if l.startswith("    ") else l for l in text.split("\n"))
            indented = [j for j in annotatable_lines(tabbed) if tabbed.split("\n")[j].startswith("\t")]
            if indented:
                cases.append({"id": f"{sid}:tab_indentation", "text": tabbed, "lines": [rr.choice(indented)], "options": {}})
    skips = []
    for k, (sid, text) in enumerate(sources[: 120 if thorough else 40]):
        rr = env.rng(PROP, "skip", sid)
        lines = text.split("\n")
        pos = rr.choice([0, len(lines) // 2, len(lines)])
        where = rr.choice(["own_line", "own_line", "trailing"])
        comment = spellings[k % len(spellings)].format("skip_file")
        if where == "own_line" or pos >= len(lines) or not lines[pos].strip() or "#" in lines[pos]:
            lines.insert(min(pos, len(lines)), comment)
        else:
            lines[pos] = lines[pos] + "  " + comment
        skips.append({"id": sid, "text": "\n".join(lines), "stdin": k % 8 == 0})
    skips += [{"id": "tabs", "text": "# pyrefact: skip_file\nif True:\n\tx = 1   \n\n\n\n\ty = 2\n", "stdin": True},
              {"id": "invalid", "text": "def f(:\n  # pyrefact: skip_file\n", "stdin": False},
              {"id": "in_string", "text": "x = '''\n# pyrefact: skip_file\n'''\nimport os\n", "stdin": False},
              {"id": "no_newline", "text": "import os   \nx=1 # pyrefact: skip_file", "stdin": True},
              # other opt-out comments before and after the skip_file comment: every comment of the file counts, not the first one
              {"id": "ignore_before_skip", "text": "import os   # pyrefact: ignore\nimport sys\nx=1\n# pyrefact: skip_file\ny = [ 1,2 ]\n", "stdin": True},
              {"id": "ignore_before_skip_same_spelling", "text": "x = 1  #pyrefact:ignore\n\n\n\n\ndef f( a ):\n    return a #pyrefact:skip_file\n", "stdin": True},
              {"id": "skip_twice", "text": "# pyrefact: skip_file\nimport os\n# pyrefact: skip_file\nx=1\n", "stdin": False},
              {"id": "skip_then_ignore", "text": "# pyrefact: skip_file\nimport os  # pyrefact: ignore\nx=1\n", "stdin": True},
              {"id": "lookalike_before_skip", "text": "# pyrefact: ignored by nobody\nimport os\nx=1\n# pyrefact: skip_file\n", "stdin": False}]
    tot, tot_s = {}, {}
    with pool.Pool() as p:
        verdict.run_witnesses(v, p)
        reps = p.map("harness.checks.c20:w_ignore", [{"cases": cases[i:i + 8]} for i in range(0, len(cases), 8)], cpu_s=1200)
        verdict.pool_failures(v, reps, "C20 ignore")
        for rep in reps:
            if rep.get("status") == "ok":
                _merge(tot, rep["value"])
        reps = p.map("harness.checks.c20:w_skip", [{"cases": skips[i:i + 4]} for i in range(0, len(skips), 4)], cpu_s=900)
        verdict.pool_failures(v, reps, "C20 skip")
        for rep in reps:
            if rep.get("status") == "ok":
                _merge(tot_s, rep["value"])
    v.extend(tot.get("violations", []))
    v.extend(tot_s.get("violations", []))
    if tot.get("changed_runs", 0) == 0:
        v.inconclusive_because("the formatter changed none of the annotated programs: nothing competed with the opt-out")
    if tot_s.get("skip_cases", 0) == 0:
        v.inconclusive_because("no skip_file case ran")
    cov = {
        "evaluations": tot.get("cases", 0) + tot_s.get("skip_cases", 0),
        "distinct_nontrivial": len(set(tot.get("nontrivial", []))) + len(set(tot_s.get("nontrivial", []))),
        "rule": "ignore: a case = one program with one (or a few) annotated physical lines through format_code; non-trivial = the formatter changed the program "
                "(rules fired around the annotated line); distinct by digest of the annotated text. skip_file: every case is a distinct text carrying the comment",
        "samples": tot.get("samples", [])[:2] or [{"note": "none"}],
        "ignore": {k: tot.get(k) for k in ("cases", "annotated_lines", "kept", "changed_runs", "crashed")},
        "skip_file": {k: tot_s.get(k) for k in ("skip_cases", "stdin_runs")},
    }
    return v.finish(cov, assumptions=["a line is annotatable if appending the comment leaves the token stream otherwise unchanged (tokenize)",
                                      "a comment is one of the spellings core.has_ignore_comment accepts (optional blanks around `pyrefact`, `:` and the keyword)"])


def _merge(total, part):
    for k, val in part.items():
        if isinstance(val, bool):
            continue
        if isinstance(val, int):
            total[k] = total.get(k, 0) + val
        elif isinstance(val, list):
            total.setdefault(k, []).extend(val)


def replay(rec) -> int:
    return verdict.generic_replay(PROP, rec)
