"""Classifiers for known findings: pure functions `violation record -> bool`, one per mechanism.

A classifier is only active for a property when KNOWN_FINDINGS.txt lists its key for that
property. Classifiers recognise mechanisms (rule + shape of the edit), never seeds or hashes.
"""
from __future__ import annotations

import ast
import re

CLASSIFIERS = {}


def classifier(key):
    def deco(fn):
        CLASSIFIERS[key] = fn
        return fn

    return deco


# ----------------------------------------------------------------------------------------- C10
@classifier("sched-insert-at-deleted-start-lost")
def _c10_insert_lost(rec):
    """An insertion scheduled at exactly the start of a range deleted in the same pass is applied after the
    deletion's whitespace clean-up shifted the offsets; when the following line carries an ignore comment the
    shifted insertion is silently refused."""
    kind = rec.get("kind")
    if kind not in ("result_differs_from_spliced_schedule", "rolled_back_although_the_spliced_schedule_is_valid"):
        return False
    sched = (rec.get("detail") or {}).get("scheduled") or []
    src = rec.get("input") or ""
    dels = {tuple(r)[0] for r, new in sched if not new and r[0] != r[1]}
    ins = {tuple(r)[0] for r, new in sched if new and r[0] == r[1]}
    if not dels & ins:
        return False
    if kind == "result_differs_from_spliced_schedule" and re.search(r"#\s*pyrefact\s*:\s*ignore", src):
        return True  # the shifted insertion landed on an ignored line and was refused silently
    # the deletion must have emptied its line (that is when the clean-up removes the line and shifts what follows): the insertion lands in the next line, and
    # the pass is rolled back although the splice is valid, or goes through although the splice is not
    for r, new in sched:
        if not new and r[0] != r[1] and r[0] in ins:
            line_start = src.rfind("\n", 0, r[0]) + 1
            line_end = src.find("\n", r[1])
            rest = src[line_start:r[0]] + src[r[1]:line_end if line_end >= 0 else len(src)]
            if not rest.strip() or rest.strip().startswith("#"):
                return True
    return False


# ----------------------------------------------------------------------------------------- C06
@classifier("parallel-run-races-on-files-that-star-import-each-other")
def _c06_star_race(rec):
    """A file that star-imports a sibling module which is rewritten in the same run is formatted against whatever is on disk at that moment: one after the other
    the sibling (sorted first) has already lost its unused definitions and the star import is dropped, in parallel it may still be intact and the import is
    expanded. Only files with such an import may differ."""
    if rec.get("kind") != "parallel_run_differs_from_sequential_run":
        return False
    files = dict(((rec.get("replay") or {}).get("arg") or {}).get("files") or [])
    differing = (rec.get("detail") or {}).get("files_differing") or []
    if not differing:
        return False
    for rel in differing:
        text = files.get(rel) or ""
        folder = rel.rsplit("/", 1)[0] + "/" if "/" in rel else ""
        stars = re.findall(r"^from (\w+) import \*", text, flags=re.M)
        if not any(folder + mod + ".py" in files for mod in stars):
            return False
    return True


# ----------------------------------------------------------------------------------------- C12
def _subset_spans(rec):
    d = rec.get("detail") or {}
    impl, ref = d.get("implementation"), d.get("reference")
    if not isinstance(impl, list) or not isinstance(ref, list):
        return False
    ref = {tuple(x) for x in ref}
    return all(tuple(x) in ref for x in impl) and len(impl) < len(ref)


@classifier("match-toplevel-sequence-quantifier")
def _c12_toplevel_quant(rec):
    """Statement-sequence patterns are matched against windows of exactly len(pattern) statements, each statement
    against one template: a ?, * or + wildcard standing directly in the sequence never matches anything."""
    d = rec.get("detail") or {}
    return (rec.get("kind") == "search_mismatch" and d.get("pattern_kind") == "seq" and bool(d.get("toplevel_quantifier"))
            and _subset_spans(rec))


@classifier("match-list-split-not-backtracked")
def _c12_no_backtracking(rec):
    """_match_list returns the first internally consistent split of a list; when that split binds a named
    wildcard differently from an occurrence outside the list, no other split is tried and the match is missed."""
    d = rec.get("detail") or {}
    if rec.get("kind") != "search_mismatch" or not _subset_spans(rec):
        return False
    pat = d.get("pattern") or ""
    names = re.findall(r"\{\{(\w+)\}\}", pat)
    repeated = any(names.count(n) >= 2 for n in set(names))
    quantified = re.search(r"\{\{(?:\w+|\.\.\.)[?*+]\}\}", pat) is not None
    return repeated and quantified and d.get("pattern_kind") != "seq"


# ----------------------------------------------------------------------------------------- C14
def _c14_match_lines(rec):
    """(text before the match on its line, matched text) for every applied match of a C14 record."""
    d = rec.get("detail") or {}
    src = rec.get("input") or ""
    out = []
    for t in d.get("applied_texts") or []:
        i = src.find(t)
        if i >= 0:
            out.append((src[src.rfind("\n", 0, i) + 1:i], t))
    return out


@classifier("sub-later-statements-of-replacement-escape-the-block")
def _c14_escape(rec):
    """A replacement of several statements is indented line by line from the text around the match: when the match shares its line with the header of its
    block (`if a: x = 1`), or continues on a line that is indented less than its first line, or is indented with tabs, the second and later statements of the
    replacement land outside the block (or the edit is dropped)."""
    d = rec.get("detail") or {}
    if rec.get("kind") != "tree_differs_from_reference_substitution":
        return False
    try:
        if len(ast.parse(d.get("repl") or "").body) < 2:
            return False
    except SyntaxError:
        return False
    for before, text in _c14_match_lines(rec):
        if before.strip() or "\t" in before:
            return True
        indent = len(before)
        if any(l.strip() and len(l) - len(l.lstrip(" ")) < indent for l in text.split("\n")[1:]):
            return True
    return False


@classifier("sub-multiline-literal-in-replacement-reindented")
def _c14_literal(rec):
    """The lines of the instantiated replacement are indented to the column of the match, including the lines inside a string literal of the template that
    spans several lines: the value of the literal changes."""
    d = rec.get("detail") or {}
    if rec.get("kind") != "tree_differs_from_reference_substitution":
        return False
    try:
        tree = ast.parse(d.get("repl") or "")
    except SyntaxError:
        return False
    multi = any(isinstance(n, ast.Constant) and isinstance(n.value, (str, bytes)) and n.end_lineno > n.lineno for n in ast.walk(tree)) or \
        any(isinstance(n, ast.JoinedStr) and n.end_lineno > n.lineno for n in ast.walk(tree))
    # (the line on which the match starts is indented: the replacement's later lines are shifted by that indentation, wherever on the line the match starts)
    return multi and any(before[:1] in (" ", "\t") for before, _ in _c14_match_lines(rec))


@classifier("sub-wildcard-named-root-is-the-match-itself")
def _c14_root(rec):
    """`root` is the field in which a match stores the matched node itself: a wildcard called {{root}} is instantiated with the whole match instead of its
    binding (`sub("foo({{root}})", "bar({{root}})", "foo(1)")` gives `bar(foo(1))`)."""
    d = rec.get("detail") or {}
    return rec.get("kind") == "tree_differs_from_reference_substitution" and "{{root}}" in (d.get("pattern") or "") and "{{root}}" in (d.get("repl") or "")


# ----------------------------------------------------------------------------------------- shared helpers
def _step(rec):
    """(rule, before, after) of the step a behavioural violation is attributed to."""
    d = rec.get("detail") or {}
    rule = d.get("attributed_rule") or rec.get("attributed_rule") or rec.get("rule")
    before = d.get("step_before") or rec.get("before") or rec.get("input")
    after = d.get("step_after") or rec.get("after") or d.get("after")
    return rule, before, after


def _parse(text):
    try:
        return ast.parse(text)
    except (SyntaxError, ValueError, TypeError):
        return None


# ----------------------------------------------------------------------------------------- C15 (+ C01/C02/C17)
@classifier("boolop-constant-operand-collapsed")
def _boolop_constant_collapse(rec):
    """simplify_boolean_expressions treats every and/or as if it stood in a boolean context with pure operands:
    an `or` with a truthy constant operand becomes True, an `and` with a falsy one False, True/False operands are
    dropped - the *value* (1 or x -> True) and the side effects of the other operands (t() or True -> True) are lost."""
    rule, before, after = _step(rec)
    if rule != "symbolic_math.simplify_boolean_expressions" or rec.get("kind") not in (
            "folded_program_behaves_differently", "step_changes_behaviour", "program_behaves_differently", "formula_value_differs",
            "deleted_code_was_observable"):
        return False
    tree = _parse(before or "")
    if tree is None:
        return False
    for node in ast.walk(tree):
        if isinstance(node, ast.BoolOp) and any(_is_literal_expression(v) for v in node.values):
            return True
    return False


def _repeated_call_operands(node):
    """Texts of call-containing operands that occur twice in one and/or (through not and comparisons) or on both sides of one comparison."""
    texts = []
    stack = list(node.values) if isinstance(node, ast.BoolOp) else [node]
    while stack:
        v = stack.pop()
        if isinstance(v, ast.BoolOp):
            stack.extend(v.values)
        elif isinstance(v, ast.UnaryOp) and isinstance(v.op, ast.Not):
            stack.append(v.operand)
        else:
            texts.append(v)
            if isinstance(v, ast.Compare):
                texts.extend([v.left] + list(v.comparators))
    seen = {}
    for t in texts:
        if any(isinstance(n, ast.Call) for n in ast.walk(t)):
            key = ast.unparse(t)
            seen[key] = seen.get(key, 0) + 1
    return [k for k, n in seen.items() if n >= 2]


@classifier("boolean-simplification-treats-repeated-calls-as-one-value")
def _boolop_repeated_calls(rec):
    """simplify_boolean_expressions(_symmath) reason about operands by their text: the same call written twice in one condition
    (`f() > 3 and f() > 5`, `f() or f()`, `f() and not f()`, `f() == f()`) is taken to be one value without effects, and one of the calls (or
    the whole condition) is dropped. The repository's own expectations contain such a case (`x and y and f(x(3)) and not f(x(3))` -> False)."""
    rule, before, after = _step(rec)
    if rule not in ("symbolic_math.simplify_boolean_expressions", "symbolic_math.simplify_boolean_expressions_symmath") or rec.get("kind") not in (
            "folded_program_behaves_differently", "step_changes_behaviour", "program_behaves_differently", "formula_value_differs", "deleted_code_was_observable"):
        return False
    tb, ta = _parse(before or ""), _parse(after or "")
    if tb is None or ta is None:
        return False
    kept = {ast.unparse(n) for n in ast.walk(ta) if isinstance(n, (ast.BoolOp, ast.Compare))}
    for node in ast.walk(tb):
        if isinstance(node, (ast.BoolOp, ast.Compare)) and ast.unparse(node) not in kept and _repeated_call_operands(node):
            return True
    return False


_LITERAL_NODES = (ast.Constant, ast.UnaryOp, ast.BinOp, ast.Compare, ast.BoolOp, ast.Tuple, ast.List, ast.Set, ast.Dict, ast.IfExp,
                  ast.operator, ast.unaryop, ast.cmpop, ast.boolop, ast.expr_context)


_PURE_BUILTINS = {"abs", "all", "any", "ascii", "bin", "bool", "bytearray", "bytes", "chr", "complex", "dict", "divmod", "enumerate", "filter",
                  "float", "format", "frozenset", "hex", "int", "iter", "len", "list", "map", "max", "min", "oct", "ord", "pow", "range", "repr",
                  "reversed", "round", "set", "slice", "sorted", "str", "sum", "tuple", "zip"}


def _is_literal_expression(node):
    """Built from literals, operators, constant-receiver method calls and pure builtins only (no free names)."""
    for n in ast.walk(node):
        if isinstance(n, _LITERAL_NODES) or isinstance(n, (ast.Call, ast.Attribute)):
            continue
        if isinstance(n, ast.Name) and n.id in _PURE_BUILTINS:
            continue
        return False
    return True


@classifier("fold-set-iteration-order")
def _fold_set_order(rec):
    """A set of strings converted to a sequence at format time (list(set('abc'))) has the iteration order of the
    formatting process' hash seed, not of the process that will run the program."""
    if rec.get("kind") != "value_is_process_dependent":
        return False
    e = rec.get("input") or ""
    tree = _parse(e)
    if tree is None:
        return False
    has_set = any(isinstance(n, (ast.Set, ast.SetComp)) or (isinstance(n, ast.Call) and isinstance(n.func, ast.Name) and n.func.id in ("set", "frozenset"))
                  for n in ast.walk(tree))
    ordered = any(isinstance(n, ast.Call) and isinstance(n.func, ast.Name) and n.func.id in ("list", "tuple", "iter", "enumerate", "zip", "map", "filter", "str", "repr", "ascii", "format", "reversed", "bytes", "bytearray")
                  for n in ast.walk(tree))
    return has_set and ordered


@classifier("sub-elif-clause-replaced-as-statement")
def _c14_elif(rec):
    """The If node of an `elif` clause spans from the `elif` keyword; sub() replaces that text by the template
    verbatim, so `elif c: ...` becomes a new `if c: ...` statement (the rules skip such nodes, sub does not)."""
    d = rec.get("detail") or {}
    return rec.get("kind") == "tree_differs_from_reference_substitution" and any(
        str(t).startswith("elif") for t in d.get("applied_texts") or [])


# ----------------------------------------------------------------------------------------- C17
@classifier("sum-closed-form-assumes-nonempty-range")
def _c17_sum_empty(rec):
    """simplify_math_iterators / inline_math_comprehensions replace sums over ranges by the closed form
    (b - 1) * b / 2 - (a - 1) * a / 2, which is only valid when the range is not empty (b >= a): sum(range(-2)) -> 3,
    sum(range(x)) is wrong for x < 0."""
    rule, before, after = _step(rec)
    return (rec.get("kind") == "formula_value_differs" and rule in ("symbolic_math.simplify_math_iterators", "fixes.inline_math_comprehensions", "main.format_code")
            and set(rec.get("difference_causes") or ["other"]) <= {"empty_range", "float_rounding"} and "empty_range" in (rec.get("difference_causes") or [])
            and "range(" in (before or ""))


@classifier("sum-closed-form-float-rounding")
def _c17_sum_rounding(rec):
    """Closed forms of degree >= 2 are emitted with true division (x ** 3 / 3 - x ** 2 / 2 + x / 6): the float result is
    not equal to the integer sum (7e-16 instead of 0)."""
    rule, before, after = _step(rec)
    return (rec.get("kind") == "formula_value_differs" and rule in ("symbolic_math.simplify_math_iterators", "fixes.inline_math_comprehensions", "main.format_code")
            and rec.get("difference_causes") == ["float_rounding"] and "/" in (after or ""))


# ----------------------------------------------------------------------------------------- C16
@classifier("pointless-higher-order-builtin-call")
def _c16_higher_order(rec):
    """has_side_effect treats a call of a whitelisted builtin as pure when its arguments are names; a callable passed
    to map/filter/sorted/min/max(key=) is called all the same: `list(map(log, xs))` is deleted as pointless."""
    rule, before, after = _step(rec)
    if rec.get("kind") != "deleted_code_was_observable" or rule != "fixes.delete_pointless_statements":
        return False
    tree = _parse(before or "")
    if tree is None:
        return False
    for n in ast.walk(tree):
        if isinstance(n, ast.Expr) and any(
                isinstance(c, ast.Call) and isinstance(c.func, ast.Name) and c.func.id in ("map", "filter", "sorted", "min", "max", "reduce")
                and (any(isinstance(a, (ast.Name, ast.Attribute, ast.Lambda)) for a in c.args[:1]) or any(k.arg == "key" for k in c.keywords))
                for c in ast.walk(n)):
            return True
    return False


_VALUE_BUILTINS = {"str", "repr", "len", "list", "tuple", "set", "frozenset", "sorted", "bool", "iter", "format", "ascii", "dict", "sum", "min", "max", "any", "all", "hash", "abs",
                   "int", "float", "reversed", "enumerate", "zip", "print"}


def _only_implicit_calls(stmt):
    """An expression statement that calls nothing by name except value builtins without keywords (and, as in `print if x else 0`, may merely
    mention them), and that mentions at least one name of the program: whatever it does, it does through the special methods of that object."""
    import builtins

    if not isinstance(stmt, ast.Expr):
        return False
    program_names = 0
    for n in ast.walk(stmt):
        if isinstance(n, (ast.Lambda, ast.Await, ast.Yield, ast.YieldFrom, ast.NamedExpr)):
            return False
        if isinstance(n, ast.Call) and not (isinstance(n.func, ast.Name) and n.func.id in _VALUE_BUILTINS and not n.keywords
                                            and not any(isinstance(a, ast.Name) and a.id in vars(builtins) for a in n.args)):
            return False
        if isinstance(n, ast.Name) and isinstance(n.ctx, ast.Load) and n.id not in vars(builtins):
            program_names += 1
    return program_names > 0


def _expr_statements(tree):
    import collections

    return collections.Counter(ast.dump(n) for n in ast.walk(tree) if isinstance(n, ast.Expr)), {ast.dump(n): n for n in ast.walk(tree) if isinstance(n, ast.Expr)}


@classifier("pointless-operation-on-an-object-with-special-methods")
def _c16_user_object(rec):
    """has_side_effect regards reading a name, an attribute or an item, operators, comparisons, truth tests, formatting and value builtins (str, len,
    list, ...) as free of effects whatever the operand is: a statement such as `obj.prop`, `obj + 1`, `obj[0]`, `str(obj)` or `f'{obj}'` is deleted as
    pointless although the property or special method of a user-defined object runs code."""
    rule, before, after = _step(rec)
    if rec.get("kind") == "no_side_effect_but_statement_observable":
        tree = _parse("def f():\n" + "".join("    " + l + "\n" for l in (rec.get("input") or "").split("\n")))
        if tree is None or not tree.body[0].body:
            return False
        inside = [n for n in ast.walk(tree.body[0].body[0]) if isinstance(n, ast.Expr)]  # the statement itself, or the statements of the if it stands in
        return bool(inside) and all(_only_implicit_calls(n) for n in inside)
    if rec.get("kind") != "deleted_code_was_observable" or rule != "fixes.delete_pointless_statements":
        return False
    tb, ta = _parse(before or ""), _parse(after or "")
    if tb is None or ta is None:
        return False
    cb, nodes = _expr_statements(tb)
    ca, _ = _expr_statements(ta)
    deleted = [nodes[k] for k in (cb - ca)]
    return bool(deleted) and all(_only_implicit_calls(n) for n in deleted)


# ----------------------------------------------------------------------------------------- C04
def _max_expr_depth(text):
    tree = _parse(text or "")
    if tree is None:
        return 0
    best = 0
    stack = [(tree, 0)]
    while stack:
        node, d = stack.pop()
        best = max(best, d)
        for child in ast.iter_child_nodes(node):
            stack.append((child, d + 1))
    return best


@classifier("deep-expression-recursion")
def _c04_deep_recursion(rec):
    """The analyses (has_side_effect, literal_value, match_template, ast.unparse) recurse over the syntax tree; an
    expression nested several hundred levels deep (`1 + 1 + ... + 1` with 800 terms) exhausts the default recursion limit."""
    d = rec.get("detail") or {}
    return rec.get("kind") == "format_code_raised" and d.get("exc") == "RecursionError" and _max_expr_depth(rec.get("input")) > 150


@classifier("tab-expansion-makes-invalid-input-valid")
def _c04_tabs(rec):
    """format_code expands tabs to 4 columns and squeezes blank lines before it asks whether the input is valid Python. CPython counts a tab to the next multiple
    of 8, so a tab-indented line that is an 'unexpected indent' for Python (the input is invalid) can line up with a 4-space block after the expansion: the
    normalised text is valid, and is then formatted like any module instead of being handed back."""
    import textwrap

    src = rec.get("input") or ""
    if rec.get("kind") != "invalid_input_not_handed_back" or "\t" not in src or _parse(src) is not None:
        return False
    expanded = re.sub(r"\n\s*\n", "\n", src.expandtabs(4))
    if _parse(expanded) is not None or _parse(textwrap.dedent(expanded)) is not None:
        return True
    # ... or a tab after a line-continuation backslash (`1 + \\<TAB>`: unexpected character after line continuation), which stripping the line ends removes
    stripped = re.sub(r"[ \t]+(?=\n|\Z)", "", expanded)
    return _parse(stripped) is not None or _parse(textwrap.dedent(stripped)) is not None


# ----------------------------------------------------------------------------------------- C11
def _c11(rec, stages, feature):
    d = rec.get("detail") or {}
    if rec.get("kind") != "layout_stage_changed_tree" or d.get("stage") not in stages or not d.get("string_constants_only"):
        return False
    consts = d.get("constants") or []
    if stages[0] in ("rmspace.format_str", "expandtabs", "fixes.fix_too_many_blank_lines") and d.get("explained_by_reference") is not True:
        return False  # the stage did something else than the text operation the finding describes
    return bool(consts) and all(c.get(feature) for c in consts)


@classifier("layout-line-wrap-reindents-literal")
def _c11_wrap(rec):
    """formatting.collapse_trailing_parentheses (the wrapper around the third-party compactify) re-indents lines inside a multi-line literal: the literal's
    value changes. Since repository fix f00aad4 its caller fix_line_lengths discards such a result, so only the helper itself (called directly) shows it."""
    return _c11(rec, ("formatting.collapse_trailing_parentheses",), "multiline")


@classifier("layout-compactify-misplaces-after-multiline-literal")
def _c11_compactify(rec):
    """compactify.format_code (collapse_trailing_parentheses) tracks indentation by physical lines; after a triple-quoted literal whose
    interior lines are indented less than the statement it re-indents the following statement (a `return` moves out of its block)."""
    d = rec.get("detail") or {}
    if rec.get("kind") != "layout_stage_changed_tree" or d.get("stage") not in ("formatting.collapse_trailing_parentheses",):
        return False  # (fix_line_lengths discards such results since repository fix f00aad4: a violation at that stage is not this finding)
    if d.get("string_constants_only"):
        return False
    src = rec.get("input") or ""
    return re.search(r"('''|\"\"\")[^'\"]*\n[^'\"]*\n", src) is not None


@classifier("common-head-moved-before-effectful-test")
def _c16_common_head(rec):
    """breakout_common_code_in_ifs moves a statement that starts every branch to before the if; when the test itself has an
    effect (a call) the order of the two effects is swapped, and if the statement raises or returns the test is never evaluated.
    The repository's own examples expect this reordering (`if random.random() < 2: print(100) ...`)."""
    rule, before, after = _step(rec)
    if rule != "fixes.breakout_common_code_in_ifs" or rec.get("kind") not in ("deleted_code_was_observable", "step_changes_behaviour", "program_behaves_differently"):
        return False
    tree = _parse(before or "")
    if tree is None:
        return False
    for node in ast.walk(tree):
        if isinstance(node, ast.If) and node.orelse and any(isinstance(n, ast.Call) for n in ast.walk(node.test)):
            a, b = node.body[0], node.orelse[0]
            while isinstance(b, ast.If) and ast.dump(a) != ast.dump(b) and b.body:
                b = b.body[0]
            while isinstance(a, ast.If) and ast.dump(a) != ast.dump(b) and a.body:
                a = a.body[0]
            if ast.dump(a) == ast.dump(b):
                return True
    # the implicit form: `if test(): X` directly followed by X (what follows the if is its else branch when the body cannot be left)
    for parent in ast.walk(tree):
        for field in ("body", "orelse", "finalbody"):
            body = getattr(parent, field, None)
            if not isinstance(body, list):
                continue
            for st, nxt in zip(body, body[1:]):
                if isinstance(st, ast.If) and not st.orelse and st.body and any(isinstance(n, ast.Call) for n in ast.walk(st.test)) and ast.dump(st.body[0]) == ast.dump(nxt):
                    return True
    return False


# ----------------------------------------------------------------------------------------- C20
@classifier("ignored-line-blanks-normalised")
def _c20_blanks(rec):
    """The layout stages that run before and after the rules (tab expansion outside literals, removal of trailing blanks) do not look at ignore
    comments: an annotated line that ends in blanks, has a tab between code and comment or is indented with tabs comes back with those blanks
    normalised - the same line up to `expandtabs(4)` and `rstrip()`, attributed to no rule."""
    d = rec.get("detail") or {}
    if rec.get("kind") != "ignored_line_not_carried_over" or d.get("attributed_rule") or rec.get("rule"):
        return False
    line = d.get("line") or ""
    i = line.find("#")
    tidy = line[:i].expandtabs(4).rstrip() + "  " + line[i:].rstrip() if i > 0 and line[:i].strip() else line.expandtabs(4).rstrip()
    if line == tidy:
        return False  # nothing on this line for the layout stages to normalise
    return d.get("line_present_up_to_tab_expansion_and_trailing_blanks") is True


# ----------------------------------------------------------------------------------------- C01 / C02 / C19 (behavioural steps)
_BEHAVIOUR_KINDS = ("step_changes_behaviour", "program_behaves_differently", "folded_program_behaves_differently", "deleted_code_was_observable",
                    "binding_structure_changed", "surface_name_lost", "client_behaves_differently", "preserved_name_lost")


def _behaviour(rec, rules):
    rule, before, after = _step(rec)
    if rec.get("kind") not in _BEHAVIOUR_KINDS or rule not in rules:
        return None
    tb, ta = _parse(before or ""), _parse(after or "")
    if tb is None or ta is None:
        return None
    return rule, before, after, tb, ta


def _new_statements(tb, ta):
    """Statements of the after-tree whose printed form does not occur in the before-tree."""
    old = {ast.unparse(n) for n in ast.walk(tb) if isinstance(n, ast.stmt)}
    return [n for n in ast.walk(ta) if isinstance(n, ast.stmt) and ast.unparse(n) not in old]


_MERGE_RULES = {"fixes.replace_for_loops_with_set_list_comp", "fixes.replace_for_loops_with_dict_comp", "fixes.replace_dict_assign_with_dict_literal",
                "fixes.replace_dict_update_with_dict_literal", "fixes.replace_dictcomp_assign_with_dict_literal", "fixes.replace_dictcomp_update_with_dict_literal",
                "fixes.replace_collection_add_update_with_collection_literal", "fixes.replace_listcomp_append_with_plus", "fixes.replace_setcomp_add_with_union",
                "fixes.replace_nested_loops_with_set_list_comp"}


@classifier("merged-expression-reads-its-own-target")
def _c02_self_reference(rec):
    """Rules that merge `x = <init>` with following `x.append(e)` / `x[k] = v` / `x.update(..)` / a loop adding to x into one expression do not
    check that e, k, v read x itself: `out = []; for i in s: out.append(len(out) + i)` -> `out = [len(out) + i for i in s]` (NameError / stale value)."""
    b = _behaviour(rec, _MERGE_RULES)
    if not b:
        return False
    _, _, _, tb, ta = b
    for st in _new_statements(tb, ta):
        if isinstance(st, ast.Assign) and len(st.targets) == 1 and isinstance(st.targets[0], ast.Name):
            tgt = st.targets[0].id
            if any(isinstance(n, ast.Name) and n.id == tgt and isinstance(n.ctx, ast.Load) for n in ast.walk(st.value)):
                return True
    return False


@classifier("dict-update-keywords-dropped")
def _c02_update_kwargs(rec):
    """replace_dict_update_with_dict_literal folds `d.update(other, key=value)` into `{**d0, **other}`: the keyword arguments are dropped."""
    b = _behaviour(rec, {"fixes.replace_dict_update_with_dict_literal", "fixes.replace_dictcomp_update_with_dict_literal"})
    if not b:
        return False
    _, _, _, tb, ta = b
    had = sum(1 for n in ast.walk(tb) if isinstance(n, ast.Call) and isinstance(n.func, ast.Attribute) and n.func.attr == "update" and n.keywords)
    has = sum(1 for n in ast.walk(ta) if isinstance(n, ast.Call) and isinstance(n.func, ast.Attribute) and n.func.attr == "update" and n.keywords)
    return has < had


@classifier("duplicate-dict-keys-equal-across-types")
def _c02_dup_keys(rec):
    """remove_duplicate_dict_keys / remove_duplicate_set_elts keep the *last* of several equal keys: `{1: 'a', True: 'b'}` becomes `{True: 'b'}` (Python keeps the
    first key object: `{1: 'b'}`) and `{1: 'a', 2: 'b', 1: 'c'}` becomes `{2: 'b', 1: 'c'}` (insertion order of key 1 lost)."""
    b = _behaviour(rec, {"fixes.remove_duplicate_dict_keys", "fixes.remove_duplicate_set_elts"})
    if not b:
        return False
    _, _, _, tb, ta = b
    calls = lambda tree: sum(isinstance(n, ast.Call) for n in ast.walk(tree))  # noqa: E731
    if calls(ta) < calls(tb):
        return False  # a call went away with the dropped item: that is not about which key object or position survives
    for n in ast.walk(tb):
        if isinstance(n, ast.Dict):
            keys = [k.value for k in n.keys if isinstance(k, ast.Constant)]
        elif isinstance(n, ast.Set):
            keys = [k.value for k in n.elts if isinstance(k, ast.Constant)]
        else:
            continue
        try:
            if len(set(keys)) < len(keys):
                return True
        except TypeError:
            continue
    return False


@classifier("rule-relies-on-import-added-by-a-later-step")
def _c02_later_import(rec):
    """implicit_defaultdict (collections), replace_sorted_heapq (heapq), the numpy rules (np) ... emit `module.name(...)` and leave the import to the later
    add_missing_imports step of the pipeline: applied alone, the result raises NameError. The monitor re-runs the result after add_missing_imports."""
    d = rec.get("detail") or {}
    if rec.get("kind") != "step_changes_behaviour" or d.get("after_status") != "exc:NameError":
        return False
    if d.get("agrees_after_add_missing_imports") is True:
        return True
    # the same, where even the later step would not help: the module name is imported inside some function of the program, which the scope-insensitive
    # analysis of add_missing_imports takes for a binding. Recognised on the step itself: it introduces `module.attr` for a module that the text does
    # not bind at module level
    import collections

    rule, before, after = _step(rec)
    tb, ta = _parse(before or ""), _parse(after or "")
    if tb is None or ta is None:
        return False

    def dotted(t):
        return collections.Counter(n.value.id for n in ast.walk(t) if isinstance(n, ast.Attribute) and isinstance(n.value, ast.Name))

    introduced = {name for name, k in dotted(ta).items() if k > dotted(tb).get(name, 0) and name in ("heapq", "collections", "np", "numpy", "pd", "pandas", "itertools", "functools", "math")}
    for name in introduced:
        first_use = min(n.lineno for n in ast.walk(ta) if isinstance(n, ast.Attribute) and isinstance(n.value, ast.Name) and n.value.id == name)
        bound_before = False  # at module level, above the first use (an import further down, or inside a function, does not help the use)
        for st in ta.body:
            if st.lineno >= first_use:
                break
            if isinstance(st, (ast.Import, ast.ImportFrom)) and name in {(a.asname or a.name).split(".")[0] for a in st.names}:
                bound_before = True
            if not isinstance(st, (ast.FunctionDef, ast.AsyncFunctionDef, ast.ClassDef)) and any(isinstance(n, ast.Name) and isinstance(n.ctx, ast.Store) and n.id == name for n in ast.walk(st)):
                bound_before = True
        if not bound_before:
            return True
    return False


@classifier("defaultdict-repr-and-membership")
def _c02_defaultdict(rec):
    """implicit_defaultdict turns `d = {}` + `if k not in d: d[k] = []` into collections.defaultdict(list): printing the mapping shows
    `defaultdict(<class 'list'>, {...})` instead of `{...}` and later reads of missing keys insert them."""
    b = _behaviour(rec, {"fixes.implicit_defaultdict"})
    if not b:
        return False
    return "defaultdict" in (b[2] or "") and "defaultdict" not in (b[1] or "")


@classifier("truthy-test-collapsed-to-its-value")
def _c02_truthiness(rec):
    """fix_if_return / fix_if_assign turn `if c: return True; return False` (and the assignment form) into `return c`: when c is not a bool (`a % 2`,
    `[a] * a`, `a or None`, `x and y`) the function returns that value instead of True/False."""
    b = _behaviour(rec, {"fixes.fix_if_return", "fixes.fix_if_assign"})
    if not b:
        return False
    _, _, _, tb, ta = b
    for n in ast.walk(tb):
        if isinstance(n, ast.If):
            t = n.test
            if not (isinstance(t, ast.Compare) or (isinstance(t, ast.UnaryOp) and isinstance(t.op, ast.Not)) or (isinstance(t, ast.Constant) and isinstance(t.value, bool))
                    or (isinstance(t, ast.BoolOp) and all(isinstance(v, ast.Compare) for v in t.values))):
                return True
    return False


@classifier("singleton-equality-made-identity")
def _c02_singleton(rec):
    """singleton_eq_comparison rewrites `x == True/False/None` to `x is ...` without knowing the type of x: `0.0 != False` is False but `0.0 is not False` is True."""
    b = _behaviour(rec, {"fixes.singleton_eq_comparison"})
    if not b:
        return False
    _, _, _, tb, ta = b
    return any(isinstance(n, ast.Compare) and any(isinstance(o, (ast.Eq, ast.NotEq)) for o in n.ops) and
               any(isinstance(c, ast.Constant) and (c.value is None or isinstance(c.value, bool)) for c in [n.left] + n.comparators) for n in ast.walk(tb))


@classifier("redundant-lambda-with-defaults-or-late-binding")
def _c02_lambda(rec):
    """simplify_redundant_lambda replaces `lambda x=2: f(x)` by `f` (the default is lost) and `lambda x: f(x)` by `f` although f may be rebound later."""
    b = _behaviour(rec, {"fixes.simplify_redundant_lambda", "fixes._replace_lambda_with_function", "fixes._replace_lambda_with_literal"})
    if not b:
        return False
    _, _, _, tb, ta = b
    return any(isinstance(n, ast.Lambda) and (n.args.defaults or n.args.kw_defaults or n.args.kwonlyargs) for n in ast.walk(tb))


@classifier("list-copy-removed-while-mutating")
def _c02_redundant_iter(rec):
    """remove_redundant_iter drops the `list(...)` in `for k in list(d.keys()):` although the loop body mutates d (RuntimeError: dictionary changed size)."""
    b = _behaviour(rec, {"performance.remove_redundant_iter"})
    if not b:
        return False
    _, _, _, tb, ta = b
    return any(isinstance(n, ast.For) and isinstance(n.iter, ast.Call) and isinstance(n.iter.func, ast.Name) and n.iter.func.id in ("list", "tuple", "sorted")
               for n in ast.walk(tb)) and (rec.get("detail") or {}).get("after_status") == "exc:RuntimeError"


@classifier("logging-deinterpolation-uses-brace-style")
def _c02_logging(rec):
    """deinterpolate_logging_args turns `logging.error(f'value {x} done')` into `logging.error('value {} done', x)`: the standard library formats with %,
    so the record cannot be formatted (the message is lost and a logging error goes to stderr)."""
    b = _behaviour(rec, {"fixes.deinterpolate_logging_args"})
    if not b:
        return False
    return True if re.search(r"logging\.\w+\(\s*['\"][^'\"]*\{[^'\"]*['\"]\s*,", b[2] or "") else False


@classifier("hoisted-assignment-is-rebound-later-in-the-loop")
def _c02_move_before_loop(rec):
    """move_before_loop hoists `k = <invariant>` out of a loop although k is assigned again further down in the same loop body (or the loop may run zero
    times and k was bound before): every iteration after the first sees the later value."""
    b = _behaviour(rec, {"fixes.move_before_loop"})
    if not b:
        return False
    _, _, _, tb, ta = b
    for loop in ast.walk(tb):
        if isinstance(loop, (ast.For, ast.While)):
            stores = {}
            for st in loop.body:
                for n in ast.walk(st):
                    if isinstance(n, ast.Name) and isinstance(n.ctx, ast.Store):
                        stores[n.id] = stores.get(n.id, 0) + 1
            if any(v >= 2 for v in stores.values()):
                return True
    return False


@classifier("zip-truncation-lost")
def _c02_zip(rec):
    """unused_zip_args drops the unused iterable of `for _, v in zip(xs, ys)`: zip stops at the shorter input, the rewritten loop runs over all of ys."""
    b = _behaviour(rec, {"fixes.unused_zip_args"})
    return bool(b) and "zip(" in (b[1] or "")


@classifier("class-attribute-moved-into-body-references-the-class")
def _c02_unconventional_class(rec):
    """fix_unconventional_class_definitions moves `K.b = K.a + 1` into the class body as `b = K.a + 1`, where K is not bound yet (NameError)."""
    b = _behaviour(rec, {"object_oriented.fix_unconventional_class_definitions"})
    if not b:
        return False
    _, _, _, tb, ta = b
    for cls in ast.walk(ta):
        if isinstance(cls, ast.ClassDef):
            for st in cls.body:
                if isinstance(st, ast.Assign) and any(isinstance(n, ast.Name) and n.id == cls.name for n in ast.walk(st.value)):
                    return True
    return False


@classifier("static-method-extracted-but-still-accessed-through-the-class")
def _c02_static_scope(rec):
    """move_staticmethod_static_scope turns a static method into a module function `_name` and rewrites calls it recognises; accesses through an instance
    (`obj.meth(3)`), a subclass or from outside the class body are left behind (AttributeError)."""
    b = _behaviour(rec, {"object_oriented.move_staticmethod_static_scope"})
    if not b:
        return False
    _, _, _, tb, ta = b
    methods = lambda tree: {(c.name, f.name) for c in ast.walk(tree) if isinstance(c, ast.ClassDef) for f in c.body if isinstance(f, ast.FunctionDef)}  # noqa: E731
    removed = {name for _, name in methods(tb) - methods(ta)}  # (per class: another class may keep a method of the same name)
    return any(isinstance(n, ast.Attribute) and n.attr in removed for n in ast.walk(ta))


@classifier("duplicate-on-an-ignored-line-kept-but-its-references-redirected")
def _c19_duplicate_ignored(rec):
    """remove_duplicate_functions yields the deletion of the duplicate and the redirection of its references as separate transactions: when a line of the
    duplicate carries an ignore comment the deletion is dropped, the redirection is not - the duplicate stays behind under its name, unreferenced (same
    behaviour, but the binding was neither left alone nor renamed as a whole)."""
    rule, before, after = _step(rec)
    if rec.get("kind") != "binding_structure_changed" or rule != "fixes.remove_duplicate_functions" or not before or not after:
        return False
    tb, ta = _parse(before), _parse(after)
    if tb is None or ta is None:
        return False
    lines = after.split("\n")
    for fn in ast.walk(ta):
        if isinstance(fn, (ast.FunctionDef, ast.AsyncFunctionDef)) and any(re.search(r"#\s*pyrefact\s*:\s*ignore", l) for l in lines[fn.lineno - 1:fn.end_lineno]):
            used_before = sum(isinstance(n, ast.Name) and n.id == fn.name for n in ast.walk(tb))
            used_after = sum(isinstance(n, ast.Name) and n.id == fn.name for n in ast.walk(ta))
            if used_before > used_after:
                return True
    return False


@classifier("renamed-definition-still-referenced-by-old-attribute-name")
def _c19_attr_rename(rec):
    """align_variable_names_with_convention renames a method or class attribute at its definition (`def goVal5` -> `def go_val5`) but attribute accesses
    (`obj.goVal5()`) are not renamed with it."""
    b = _behaviour(rec, {"fixes.align_variable_names_with_convention", "fixes._fix_variable_names", "main.format_code"})
    if not b:
        return False
    _, _, _, tb, ta = b
    def defs(t):
        return {f.name for c in ast.walk(t) if isinstance(c, ast.ClassDef) for f in c.body if isinstance(f, (ast.FunctionDef, ast.AsyncFunctionDef))} | \
               {n.id for c in ast.walk(t) if isinstance(c, ast.ClassDef) for st in c.body if isinstance(st, ast.Assign) for n in st.targets if isinstance(n, ast.Name)}
    gone = defs(tb) - defs(ta)
    # per class as well: the method of one class is renamed, a subclass (or another class) keeps a method of that name, and `super().name()` / `obj.name()`
    # still spell the old one
    cb, ca = [c for c in ast.walk(tb) if isinstance(c, ast.ClassDef)], [c for c in ast.walk(ta) if isinstance(c, ast.ClassDef)]
    if len(cb) == len(ca):
        for x, y in zip(cb, ca):
            gone |= defs(x) - defs(y)
    return any(isinstance(n, ast.Attribute) and n.attr in gone for n in ast.walk(ta))


@classifier("loop-target-read-after-the-loop")
def _c02_loop_target_leak(rec):
    """The loop-to-comprehension rules do not check whether the loop variable is read after the loop: inside a comprehension it is no longer bound outside
    (`for i in s: out.append(i)` ... `print(i)` -> NameError)."""
    b = _behaviour(rec, {"fixes.replace_for_loops_with_set_list_comp", "fixes.replace_for_loops_with_dict_comp", "fixes.replace_nested_loops_with_set_list_comp",
                         "fixes.replace_with_filter", "fixes.replace_setcomp_add_with_union", "fixes.replace_listcomp_append_with_plus"})
    if not b:
        return False
    _, _, _, tb, ta = b
    for holder in ast.walk(tb):
        body = getattr(holder, "body", None)
        if not isinstance(body, list):
            continue
        for i, st in enumerate(body):
            if isinstance(st, ast.For):
                targets = {n.id for n in ast.walk(st.target) if isinstance(n, ast.Name)}
                later = {n.id for s2 in body[i + 1:] for n in ast.walk(s2) if isinstance(n, ast.Name) and isinstance(n.ctx, ast.Load)}
                if targets & later:
                    return True
    return False


@classifier("subscript-looping-index-still-used")
def _c02_subscript_looping(rec):
    """replace_subscript_looping turns `[(q, s[q]) for q in range(len(s))]` into `[(q, s_q) for s_q in s]` although the index q is still used in the element (NameError)."""
    b = _behaviour(rec, {"performance.replace_subscript_looping", "performance._replace_subscript_looping_simple_cases", "performance._replace_subscript_looping_complex_cases"})
    if not b:
        return False
    _, _, _, tb, ta = b
    for comp in ast.walk(tb):
        if isinstance(comp, (ast.ListComp, ast.SetComp, ast.GeneratorExp, ast.DictComp)):
            for g in comp.generators:
                if isinstance(g.target, ast.Name) and isinstance(g.iter, ast.Call) and isinstance(g.iter.func, ast.Name) and g.iter.func.id == "range":
                    idx = g.target.id
                    elts = [comp.key, comp.value] if isinstance(comp, ast.DictComp) else [comp.elt]
                    bare = [n for e in elts + g.ifs for n in ast.walk(e) if isinstance(n, ast.Name) and n.id == idx]
                    inside_subscript = [n for e in elts + g.ifs for sub in ast.walk(e) if isinstance(sub, ast.Subscript) for n in ast.walk(sub.slice) if isinstance(n, ast.Name) and n.id == idx]
                    if len(bare) > len(inside_subscript):
                        return True
    return False


@classifier("rebound-definition-renamed-inconsistently")
def _c19_rebound_def(rec):
    """A function or class name that is also the target of an assignment (`def dup2` ... `dup2 = dup1`) is renamed by two different conventions
    (`_dup2` for the def, `DUP2` for the variable): definition and uses no longer agree (NameError)."""
    b = _behaviour(rec, {"fixes.align_variable_names_with_convention", "fixes._fix_variable_names", "main.format_code"})
    if not b:
        return False
    _, _, _, tb, ta = b
    defs = {n.name for n in ast.walk(tb) if isinstance(n, (ast.FunctionDef, ast.AsyncFunctionDef, ast.ClassDef))}
    stores = {n.id for n in ast.walk(tb) if isinstance(n, ast.Name) and isinstance(n.ctx, ast.Store)}
    return bool(defs & stores)


@classifier("dict-item-assignment-evaluation-order")
def _c02_dict_eval_order(rec):
    """replace_dict_assign_with_dict_literal folds `d[k()] = v()` into the display `{..., k(): v()}`: an item assignment evaluates the value first, a display the key first."""
    b = _behaviour(rec, {"fixes.replace_dict_assign_with_dict_literal", "fixes.replace_dictcomp_assign_with_dict_literal"})
    if not b:
        return False
    _, _, _, tb, ta = b
    for n in ast.walk(tb):
        if isinstance(n, ast.Assign) and len(n.targets) == 1 and isinstance(n.targets[0], ast.Subscript):
            k_calls = any(isinstance(c, ast.Call) for c in ast.walk(n.targets[0].slice))
            v_calls = any(isinstance(c, ast.Call) for c in ast.walk(n.value))
            if k_calls and v_calls:
                return True
    return False


# ----------------------------------------------------------------------------------------- C07
@classifier("safe-mode-drops-underscore-assignment")
def _c07_underscore(rec):
    """`_ = value` at module level is deleted in safe mode too when nothing reads `_`: has_side_effect treats every assignment to `_` as meaningless and
    delete_pointless_statements takes no preserve set."""
    d = rec.get("detail") or {}
    return rec.get("kind") == "surface_name_lost" and d.get("name") == "_"


# ----------------------------------------------------------------------------------------- C19
def _binding_kinds(tree):
    kinds = {}
    def add(name, kind):
        kinds.setdefault(name, set()).add(kind)
    for n in ast.walk(tree):
        if isinstance(n, (ast.FunctionDef, ast.AsyncFunctionDef)):
            add(n.name, "def")
            for a in n.args.posonlyargs + n.args.args + n.args.kwonlyargs + [x for x in (n.args.vararg, n.args.kwarg) if x]:
                add(a.arg, "arg")
        elif isinstance(n, ast.Lambda):
            for a in n.args.posonlyargs + n.args.args + n.args.kwonlyargs:
                add(a.arg, "arg")
        elif isinstance(n, ast.ClassDef):
            add(n.name, "class")
        elif isinstance(n, (ast.Import, ast.ImportFrom)):
            for a in n.names:
                add(a.asname or a.name.split(".")[0], "import")
        elif isinstance(n, ast.ExceptHandler) and n.name:
            add(n.name, "except")
        elif isinstance(n, (ast.For, ast.AsyncFor, ast.comprehension)):
            for t in ast.walk(n.target):
                if isinstance(t, ast.Name):
                    add(t.id, "loop")
        elif isinstance(n, ast.withitem) and n.optional_vars is not None:
            for t in ast.walk(n.optional_vars):
                if isinstance(t, ast.Name):
                    add(t.id, "with")
        elif isinstance(n, (ast.Assign, ast.AnnAssign, ast.AugAssign, ast.NamedExpr)):
            targets = n.targets if isinstance(n, ast.Assign) else [n.target]
            for tg in targets:
                for t in ast.walk(tg):
                    if isinstance(t, ast.Name) and isinstance(t.ctx, ast.Store):
                        add(t.id, "assign")
        elif isinstance(n, ast.Attribute):
            add(n.attr, "attribute")
        elif isinstance(n, ast.keyword) and n.arg:
            add(n.arg, "keyword")
    return kinds


def _identifiers(text):
    return set(re.findall(r"[A-Za-z_]\w*", text or ""))


@classifier("renaming-merges-distinct-names")
def _c19_merge(rec):
    """align_variable_names_with_convention computes the new spelling of every binding separately: `fooBar_` and `foo_bar` (or `myVar`, `MyVar`, `my_var`) are both
    renamed to the same name and two bindings become one; the blacklist only covers names that exist *before* the renaming."""
    b = _behaviour(rec, {"fixes.align_variable_names_with_convention", "fixes._fix_variable_names", "main.format_code"})
    if not b:
        return False
    probs = (rec.get("detail") or {}).get("structural_problems") or []
    merged = [p for p in probs if p.get("problem") == "two_bindings_merged_into_one_name"]
    if merged:
        # the known mechanism: two names that are *both* renamed end up equal. A renamed name landing on an existing, unrenamed one is what the blacklist prevents.
        return all(p.get("new") not in (p.get("old") or []) for p in merged) and not any(p.get("problem") == "new_name_is_keyword_or_builtin" for p in probs)
    # not a pure renaming any more: fall back to the texts: two different identifiers that disappear, fewer that appear
    gone = _identifiers(b[1]) - _identifiers(b[2])
    new = _identifiers(b[2]) - _identifiers(b[1])
    norm = lambda s: s.replace("_", "").lower()  # noqa: E731
    groups = {}
    for g in gone:
        groups.setdefault(norm(g), set()).add(g)
    if any(len(v) >= 2 for v in groups.values()) and len(new) < len(gone):
        return True
    # ... or the old spellings survive elsewhere (as attributes, parameters): a new identifier that took over occurrences of two different old ones
    count = lambda text, n: len(re.findall(r"(?<![A-Za-z0-9_])" + re.escape(n) + r"(?![A-Za-z0-9_])", text or ""))  # noqa: E731
    for n in new:
        lost_to_n = {g for g in _identifiers(b[1]) if g != n and norm(g) == norm(n) and count(b[1], g) > count(b[2], g)}
        if len(lost_to_n) >= 2:
            return True
    return False


@classifier("renamed-name-is-bound-in-several-ways")
def _c19_multi_binding(rec):
    """The naming rules treat a name as one kind of binding (a def, an assignment, ...). When the same name is also bound another way in the module (rebound by an
    assignment, an import alias, an except target, a keyword argument, an attribute of the same spelling), only some occurrences are renamed or redirected."""
    b = _behaviour(rec, {"fixes.align_variable_names_with_convention", "fixes._fix_variable_names", "fixes.remove_duplicate_functions", "main.format_code",
                         "fixes.undefine_unused_variables"})
    if not b:
        return False
    kinds = _binding_kinds(b[3])
    gone = _identifiers(b[1]) - _identifiers(b[2])
    count = lambda text, n: len(re.findall(r"(?<![A-Za-z0-9_])" + re.escape(n) + r"(?![A-Za-z0-9_])", text or ""))  # noqa: E731
    touched = gone | {n for n in kinds if count(b[1], n) != count(b[2], n)}
    def several(ks):
        ks = set(ks)
        if ks & {"def", "class"} and len(ks - {"attribute"}) >= 2:
            return True  # a definition that is also rebound some other way
        if ks & {"import", "except"} and len(ks) >= 2:
            return True  # an import alias / except target spelled like another binding
        if "keyword" in ks and ks & {"assign", "def", "arg", "loop"}:
            return True  # a keyword argument spelled like a renamed variable
        return False

    if any(several(kinds.get(n, ())) for n in touched):
        return True
    # a name that one body defines more than once (a property and its setter, overloads): one of the definitions is renamed, the other keeps the name
    import collections

    twice = collections.Counter((id(scope), f.name) for scope in ast.walk(b[3]) if isinstance(getattr(scope, "body", None), list)
                                for f in scope.body if isinstance(f, (ast.FunctionDef, ast.AsyncFunctionDef)))
    return any(k >= 2 and n in touched for (_, n), k in twice.items())


@classifier("duplicate-function-kept-under-a-builtin-name")
def _c19_dup_builtin(rec):
    """remove_duplicate_functions deletes the later of two equal functions and redirects its uses to the first; when the first is named like a builtin or keyword
    (`def list(x)`, `def case(y)`) the uses are not redirected and the deleted name is left dangling (NameError)."""
    import builtins as _b
    import keyword as _k

    b = _behaviour(rec, {"fixes.remove_duplicate_functions"})
    if not b:
        return False
    reserved = set(dir(_b)) | set(_k.kwlist) | set(getattr(_k, "softkwlist", [])) | {"match", "case", "type"}
    return any(isinstance(n, ast.FunctionDef) and n.name in reserved for n in ast.walk(b[3]))


# ----------------------------------------------------------------------------------------- C18
def _c18(rec, rules):
    """(before, after, name, tree_before, tree_after) when the violation is attributed to one of `rules` (alone or inside a chained step)."""
    if rec.get("kind") != "name_resolves_to_another_object":
        return None
    rule, before, after = _step(rec)
    parts = set(rule[len("processing.chain["):-1].split("+")) if (rule or "").startswith("processing.chain[") else {rule}
    if not parts & set(rules):
        return None
    tb, ta = _parse(before or ""), _parse(after or "")
    if tb is None or ta is None:
        return None
    diff = (rec.get("detail") or {}).get("difference") or {}
    name = None
    if diff.get("tag"):
        name = diff["tag"].split(":", 1)[1].split(".")[0]
        if name == "call":
            name = None
    else:
        m = re.search(r"name '(\w+)' is not defined|cannot import name '(\w+)'", diff.get("message") or "")
        if m:
            name = m.group(1) or m.group(2)
    return before, after, name, tb, ta


def _import_bindings(tree, module_level_only=False):
    """[(bound name, source key, node)] for every import alias (a star import binds '*')."""
    out = []
    nodes = tree.body if module_level_only else ast.walk(tree)
    for node in nodes:
        if isinstance(node, ast.ImportFrom):
            for a in node.names:
                out.append((a.asname or a.name, (node.module, node.level, a.name), node))
        elif isinstance(node, ast.Import):
            for a in node.names:
                out.append((a.asname or a.name.split(".")[0], (a.name if a.asname else a.name.split(".")[0], 0, None), node))
    return out


def _import_groups(tree):
    """Runs of consecutive import statements in any statement list."""
    for node in ast.walk(tree):
        for field in ("body", "orelse", "finalbody"):
            body = getattr(node, field, None)
            if not isinstance(body, list):
                continue
            run = []
            for st in body + [None]:
                if isinstance(st, (ast.Import, ast.ImportFrom)):
                    run.append(st)
                else:
                    if len(run) >= 1:
                        yield run
                    run = []


@classifier("import-sorting-changes-which-binding-wins")
def _c18_sort(rec):
    """sort_imports orders the statements of an import group (and the aliases inside one statement) alphabetically without asking what they bind: when two of
    them bind the same name to different things, or one of them is a star import (which may bind any name), the order decides what the name means and sorting
    changes it. The repository's own unit test (tests/unit/test_sort_imports.py) expects exactly this reordering, so it is not repaired."""
    c = _c18(rec, {"fixes.sort_imports"})
    if not c:
        return False
    before, after, name, tb, ta = c
    for run in _import_groups(tb):
        bound = {}
        star = False
        for st in run:
            if isinstance(st, ast.ImportFrom):
                for a in st.names:
                    if a.name == "*":
                        star = True
                    bound.setdefault(a.asname or a.name, set()).add((st.module, st.level, a.name))
            else:
                for a in st.names:
                    bound.setdefault(a.asname or a.name.split(".")[0], set()).add((a.name, 0, None))
        conflict = {n for n, srcs in bound.items() if len(srcs) > 1}
        if (star and len(run) > 1) or conflict:
            if name is None or star or name in conflict:
                return True
    return False


@classifier("star-import-narrowed-without-a-name-bound-elsewhere")
def _c18_star_bound_elsewhere(rec):
    """fix_starred_imports keeps, of a star import, the names that the scope- and order-insensitive undefined-name analysis reports. A name that the star import
    provides but that is also bound anywhere else in the module - an explicit import earlier in the file that the star import overrides, an import or assignment
    inside a function, a parameter - counts as defined and is dropped from the narrowed import: the name then resolves to the other binding or to nothing."""
    c = _c18(rec, {"tracing.fix_starred_imports"})
    if not c:
        return False
    before, after, name, tb, ta = c
    if name is None or not any(n == "*" for n, _, _ in _import_bindings(tb, module_level_only=True)):
        return False
    orig = _parse(rec.get("input") or "")  # the other binding must be the client's own, not one that an earlier step (a guessed import) added
    if orig is None:
        return False
    for node in ast.walk(orig):
        if isinstance(node, (ast.Import, ast.ImportFrom)):
            if any((a.asname or a.name.split(".")[0]) == name for a in node.names):
                return True
        elif isinstance(node, ast.Name) and isinstance(node.ctx, ast.Store) and node.id == name:
            return True
        elif isinstance(node, ast.arg) and node.arg == name:
            return True
        elif isinstance(node, (ast.FunctionDef, ast.AsyncFunctionDef, ast.ClassDef)) and node.name == name:
            return True
    return False


@classifier("hoisted-import-meets-a-star-provided-name")
def _c18_hoist_star(rec):
    """move_imports_to_toplevel checks the explicit bindings of the module before moving an import up (out of a function, or from below the first definition),
    but not what the module's star imports provide: `from pathlib import PurePath` inside a method is moved to module level where `from helpers import *` (helpers defines PurePath) binds the same
    name, and one of the two now shadows the other."""
    c = _c18(rec, {"fixes.move_imports_to_toplevel"})
    if not c:
        return False
    before, after, name, tb, ta = c
    if not any(n == "*" for n, _, _ in _import_bindings(tb)):  # a star import anywhere at module scope (also inside try / if blocks)
        return False
    diff = (rec.get("detail") or {}).get("difference") or {}
    if not diff.get("tag") and diff.get("status_after") not in ("exc:AttributeError", "exc:TypeError"):
        return False  # the name stays bound (to the other object): a NameError / ImportError / SyntaxError is another mechanism
    # imports that the rule moved: nested ones, and module-level ones below the first definition
    first_def = min((st.lineno for st in tb.body if isinstance(st, (ast.FunctionDef, ast.AsyncFunctionDef, ast.ClassDef))), default=10 ** 9)
    moved_before = {n for n, _, node in _import_bindings(tb) if node not in tb.body or node.lineno > first_def}
    top_after = {n for n, _, _ in _import_bindings(ta, module_level_only=True)}
    if name is None:
        return bool(moved_before & top_after)
    return name in moved_before and name in top_after


@classifier("name-provided-by-several-star-imports")
def _c18_several_stars(rec):
    """trace_origin attributes a name to the last star import (by line) that provides it, and fix_starred_imports narrows per module: when several star-imported
    modules provide the same name and the code between them uses it, the earlier provider is narrowed without the name (or removed) and the use in between
    resolves to another module's object."""
    c = _c18(rec, {"tracing.fix_starred_imports"})
    if not c:
        return False
    before, after, name, tb, ta = c
    if name is None:
        return False
    stars = [node.module for n, _, node in _import_bindings(tb, module_level_only=False) if n == "*" and node.module and not node.level]
    if len(set(stars)) < 2:
        return False
    world = (rec.get("detail") or {}).get("world") or {}
    providers = 0
    for mod in set(stars):
        text = world.get(mod.replace(".", "/") + ".py") or world.get(mod.replace(".", "/") + "/__init__.py")
        if text is None:
            continue
        if re.search(r"(?<![A-Za-z0-9_])" + re.escape(name) + r"(?![A-Za-z0-9_])", text) or re.search(r"import \*", text):
            providers += 1
    return providers >= 2


# ----------------------------------------------------------------------------------------- C16 (with + raise)
@classifier("raise-inside-with-treated-as-blocking")
def _c16_with_raise(rec):
    """core.is_blocking answers a `with` statement by its body. When the body ends in a raise (or `assert False`), the statement counts as impossible to get
    past, although the context manager may swallow the exception (contextlib.suppress, a transaction manager, pytest.raises): the code after the with block
    is deleted as unreachable. The repository's own tests/unit/test_is_blocking.py expects `with x as y: raise RuntimeError()` to be blocking, so it is
    recorded, not repaired."""
    if rec.get("kind") not in ("is_blocking_but_next_statement_reached", "deleted_code_was_observable", "program_behaves_differently", "step_changes_behaviour"):
        return False
    rule, before, after = _step(rec)
    # every consumer of is_blocking inherits the answer: delete_unreachable_code, remove_redundant_else, swap_if_else, early_return, breakout_common_code_in_ifs ...
    text = before or rec.get("input") or ""
    tree = _parse(text)
    if tree is None:
        import textwrap

        tree = _parse("def _f():\n" + textwrap.indent(text, "    "))
    if tree is None:
        return False

    def may_leave_by_exception(body):
        """A raise or a failing assert somewhere in the body (not in a nested def): the only way out that a context manager can close."""
        stack = list(body)
        while stack:
            st = stack.pop()
            if isinstance(st, ast.Raise) or (isinstance(st, ast.Assert) and not (isinstance(st.test, ast.Constant) and st.test.value)):
                return True
            if isinstance(st, (ast.FunctionDef, ast.AsyncFunctionDef, ast.ClassDef, ast.Lambda)):
                continue
            stack.extend(c for c in ast.iter_child_nodes(st) if isinstance(c, (ast.stmt, ast.ExceptHandler)))
        return False

    return any(isinstance(n, (ast.With, ast.AsyncWith)) and may_leave_by_exception(n.body) for n in ast.walk(tree))
