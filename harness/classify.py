"""Classifiers for known findings: pure functions `violation record -> bool`, one per mechanism.

A classifier is only active for a property when KNOWN_FINDINGS.txt lists its key for that
property. Classifiers recognise mechanisms (rule + shape of the edit), never seeds or hashes.
"""
from __future__ import annotations

import ast
import re

CLASSIFIERS = {}


def classifier(key):
    def deco(fn):
        CLASSIFIERS[key] = fn
        return fn

    return deco


# ----------------------------------------------------------------------------------------- C10
@classifier("sched-insert-at-deleted-start-lost")
def _c10_insert_lost(rec):
    """An insertion scheduled at exactly the start of a range deleted in the same pass is applied after the
    deletion's whitespace clean-up shifted the offsets; when the following line carries an ignore comment the
    shifted insertion is silently refused."""
    if rec.get("kind") != "result_differs_from_spliced_schedule":
        return False
    sched = (rec.get("detail") or {}).get("scheduled") or []
    src = rec.get("input") or ""
    if not re.search(r"#\s*pyrefact\s*:\s*ignore", src):
        return False
    dels = {tuple(r)[0] for r, new in sched if not new and r[0] != r[1]}
    ins = {tuple(r)[0] for r, new in sched if new and r[0] == r[1]}
    return bool(dels & ins)
