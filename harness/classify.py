"""Classifiers for known findings: pure functions `violation record -> bool`, one per mechanism.

A classifier is only active for a property when KNOWN_FINDINGS.txt lists its key for that
property. Classifiers recognise mechanisms (rule + shape of the edit), never seeds or hashes.
"""
from __future__ import annotations

import ast
import re

CLASSIFIERS = {}


def classifier(key):
    def deco(fn):
        CLASSIFIERS[key] = fn
        return fn

    return deco


# ----------------------------------------------------------------------------------------- C10
@classifier("sched-insert-at-deleted-start-lost")
def _c10_insert_lost(rec):
    """An insertion scheduled at exactly the start of a range deleted in the same pass is applied after the
    deletion's whitespace clean-up shifted the offsets; when the following line carries an ignore comment the
    shifted insertion is silently refused."""
    if rec.get("kind") != "result_differs_from_spliced_schedule":
        return False
    sched = (rec.get("detail") or {}).get("scheduled") or []
    src = rec.get("input") or ""
    if not re.search(r"#\s*pyrefact\s*:\s*ignore", src):
        return False
    dels = {tuple(r)[0] for r, new in sched if not new and r[0] != r[1]}
    ins = {tuple(r)[0] for r, new in sched if new and r[0] == r[1]}
    return bool(dels & ins)


# ----------------------------------------------------------------------------------------- C12
def _subset_spans(rec):
    d = rec.get("detail") or {}
    impl, ref = d.get("implementation"), d.get("reference")
    if not isinstance(impl, list) or not isinstance(ref, list):
        return False
    ref = {tuple(x) for x in ref}
    return all(tuple(x) in ref for x in impl) and len(impl) < len(ref)


@classifier("match-toplevel-sequence-quantifier")
def _c12_toplevel_quant(rec):
    """Statement-sequence patterns are matched against windows of exactly len(pattern) statements, each statement
    against one template: a ?, * or + wildcard standing directly in the sequence never matches anything."""
    d = rec.get("detail") or {}
    return (rec.get("kind") == "search_mismatch" and d.get("pattern_kind") == "seq" and bool(d.get("toplevel_quantifier"))
            and _subset_spans(rec))


@classifier("match-list-split-not-backtracked")
def _c12_no_backtracking(rec):
    """_match_list returns the first internally consistent split of a list; when that split binds a named
    wildcard differently from an occurrence outside the list, no other split is tried and the match is missed."""
    d = rec.get("detail") or {}
    if rec.get("kind") != "search_mismatch" or not _subset_spans(rec):
        return False
    pat = d.get("pattern") or ""
    names = re.findall(r"\{\{(\w+)\}\}", pat)
    repeated = any(names.count(n) >= 2 for n in set(names))
    quantified = re.search(r"\{\{(?:\w+|\.\.\.)[?*+]\}\}", pat) is not None
    return repeated and quantified and d.get("pattern_kind") != "seq"


# ----------------------------------------------------------------------------------------- C14
@classifier("sub-textual-instantiation-ignores-precedence")
def _c14_precedence(rec):
    """Replacement templates are instantiated by pasting the printed binding into the template text; a binding
    whose precedence is lower than the hole's context (`{{x}} * 2` with x = `a + b`) denotes another tree."""
    d = rec.get("detail") or {}
    return rec.get("kind") == "tree_differs_from_reference_substitution" and d.get("explained_by_textual_instantiation") is True


# ----------------------------------------------------------------------------------------- shared helpers
def _step(rec):
    """(rule, before, after) of the step a behavioural violation is attributed to."""
    d = rec.get("detail") or {}
    rule = d.get("attributed_rule") or rec.get("attributed_rule") or rec.get("rule")
    before = d.get("step_before") or rec.get("before") or rec.get("input")
    after = d.get("step_after") or rec.get("after") or d.get("after")
    return rule, before, after


def _parse(text):
    try:
        return ast.parse(text)
    except (SyntaxError, ValueError, TypeError):
        return None


# ----------------------------------------------------------------------------------------- C15 (+ C01/C02/C17)
@classifier("boolop-constant-operand-collapsed")
def _boolop_constant_collapse(rec):
    """simplify_boolean_expressions treats every and/or as if it stood in a boolean context with pure operands:
    an `or` with a truthy constant operand becomes True, an `and` with a falsy one False, True/False operands are
    dropped - the *value* (1 or x -> True) and the side effects of the other operands (t() or True -> True) are lost."""
    rule, before, after = _step(rec)
    if rule != "symbolic_math.simplify_boolean_expressions" or rec.get("kind") not in (
            "folded_program_behaves_differently", "step_changes_behaviour", "program_behaves_differently", "formula_value_differs",
            "deleted_code_was_observable"):
        return False
    tree = _parse(before or "")
    if tree is None:
        return False
    for node in ast.walk(tree):
        if isinstance(node, ast.BoolOp) and any(_is_literal_expression(v) for v in node.values):
            return True
    return False


_LITERAL_NODES = (ast.Constant, ast.UnaryOp, ast.BinOp, ast.Compare, ast.BoolOp, ast.Tuple, ast.List, ast.Set, ast.Dict, ast.IfExp,
                  ast.operator, ast.unaryop, ast.cmpop, ast.boolop, ast.expr_context)


_PURE_BUILTINS = {"abs", "all", "any", "ascii", "bin", "bool", "bytearray", "bytes", "chr", "complex", "dict", "divmod", "enumerate", "filter",
                  "float", "format", "frozenset", "hex", "int", "iter", "len", "list", "map", "max", "min", "oct", "ord", "pow", "range", "repr",
                  "reversed", "round", "set", "slice", "sorted", "str", "sum", "tuple", "zip"}


def _is_literal_expression(node):
    """Built from literals, operators, constant-receiver method calls and pure builtins only (no free names)."""
    for n in ast.walk(node):
        if isinstance(n, _LITERAL_NODES) or isinstance(n, (ast.Call, ast.Attribute)):
            continue
        if isinstance(n, ast.Name) and n.id in _PURE_BUILTINS:
            continue
        return False
    return True


@classifier("fold-set-iteration-order")
def _fold_set_order(rec):
    """A set of strings converted to a sequence at format time (list(set('abc'))) has the iteration order of the
    formatting process' hash seed, not of the process that will run the program."""
    if rec.get("kind") != "value_is_process_dependent":
        return False
    e = rec.get("input") or ""
    tree = _parse(e)
    if tree is None:
        return False
    has_set = any(isinstance(n, (ast.Set, ast.SetComp)) or (isinstance(n, ast.Call) and isinstance(n.func, ast.Name) and n.func.id in ("set", "frozenset"))
                  for n in ast.walk(tree))
    ordered = any(isinstance(n, ast.Call) and isinstance(n.func, ast.Name) and n.func.id in ("list", "tuple", "iter", "enumerate", "zip", "map", "filter", "str", "repr", "ascii", "format", "reversed", "bytes", "bytearray")
                  for n in ast.walk(tree))
    return has_set and ordered


@classifier("sub-elif-clause-replaced-as-statement")
def _c14_elif(rec):
    """The If node of an `elif` clause spans from the `elif` keyword; sub() replaces that text by the template
    verbatim, so `elif c: ...` becomes a new `if c: ...` statement (the rules skip such nodes, sub does not)."""
    d = rec.get("detail") or {}
    return rec.get("kind") == "tree_differs_from_reference_substitution" and any(
        str(t).startswith("elif") for t in d.get("applied_texts") or [])


# ----------------------------------------------------------------------------------------- C17
@classifier("sum-closed-form-assumes-nonempty-range")
def _c17_sum_empty(rec):
    """simplify_math_iterators / inline_math_comprehensions replace sums over ranges by the closed form
    (b - 1) * b / 2 - (a - 1) * a / 2, which is only valid when the range is not empty (b >= a): sum(range(-2)) -> 3,
    sum(range(x)) is wrong for x < 0."""
    rule, before, after = _step(rec)
    return (rec.get("kind") == "formula_value_differs" and rule in ("symbolic_math.simplify_math_iterators", "fixes.inline_math_comprehensions", "main.format_code")
            and set(rec.get("difference_causes") or ["other"]) <= {"empty_range", "float_rounding"} and "empty_range" in (rec.get("difference_causes") or [])
            and "range(" in (before or ""))


@classifier("sum-closed-form-float-rounding")
def _c17_sum_rounding(rec):
    """Closed forms of degree >= 2 are emitted with true division (x ** 3 / 3 - x ** 2 / 2 + x / 6): the float result is
    not equal to the integer sum (7e-16 instead of 0)."""
    rule, before, after = _step(rec)
    return (rec.get("kind") == "formula_value_differs" and rule in ("symbolic_math.simplify_math_iterators", "fixes.inline_math_comprehensions", "main.format_code")
            and rec.get("difference_causes") == ["float_rounding"] and "/" in (after or ""))


# ----------------------------------------------------------------------------------------- C16
@classifier("pointless-higher-order-builtin-call")
def _c16_higher_order(rec):
    """has_side_effect treats a call of a whitelisted builtin as pure when its arguments are names; a callable passed
    to map/filter/sorted/min/max(key=) is called all the same: `list(map(log, xs))` is deleted as pointless."""
    rule, before, after = _step(rec)
    if rec.get("kind") != "deleted_code_was_observable" or rule != "fixes.delete_pointless_statements":
        return False
    tree = _parse(before or "")
    if tree is None:
        return False
    for n in ast.walk(tree):
        if isinstance(n, ast.Expr) and any(
                isinstance(c, ast.Call) and isinstance(c.func, ast.Name) and c.func.id in ("map", "filter", "sorted", "min", "max", "reduce")
                and (any(isinstance(a, (ast.Name, ast.Attribute, ast.Lambda)) for a in c.args[:1]) or any(k.arg == "key" for k in c.keywords))
                for c in ast.walk(n)):
            return True
    return False


# ----------------------------------------------------------------------------------------- C04
def _max_expr_depth(text):
    tree = _parse(text or "")
    if tree is None:
        return 0
    best = 0
    stack = [(tree, 0)]
    while stack:
        node, d = stack.pop()
        best = max(best, d)
        for child in ast.iter_child_nodes(node):
            stack.append((child, d + 1))
    return best


@classifier("deep-expression-recursion")
def _c04_deep_recursion(rec):
    """The analyses (has_side_effect, literal_value, match_template, ast.unparse) recurse over the syntax tree; an
    expression nested several hundred levels deep (`1 + 1 + ... + 1` with 800 terms) exhausts the default recursion limit."""
    d = rec.get("detail") or {}
    return rec.get("kind") == "format_code_raised" and d.get("exc") == "RecursionError" and _max_expr_depth(rec.get("input")) > 150


# ----------------------------------------------------------------------------------------- C11
def _c11(rec, stages, feature):
    d = rec.get("detail") or {}
    if rec.get("kind") != "layout_stage_changed_tree" or d.get("stage") not in stages or not d.get("string_constants_only"):
        return False
    consts = d.get("constants") or []
    return bool(consts) and all(c.get(feature) for c in consts)


@classifier("layout-expandtabs-in-literal")
def _c11_tabs(rec):
    """format_code expands tabs on the raw text (source.expandtabs(4)): a tab inside a string/bytes/f-string literal becomes spaces."""
    return _c11(rec, ("expandtabs",), "has_tab")


@classifier("layout-rmspace-strips-literal")
def _c11_rmspace(rec):
    """rmspace.format_str strips trailing blanks on every physical line, also inside multi-line (and at the end of single-line?) literals."""
    return _c11(rec, ("rmspace.format_str",), "has_trailing_ws_line")


@classifier("layout-blank-lines-in-literal")
def _c11_blank(rec):
    """fix_too_many_blank_lines applies its regexes to the raw text: runs of blank lines inside a triple-quoted literal are collapsed."""
    return _c11(rec, ("fixes.fix_too_many_blank_lines",), "has_blank_run")


@classifier("layout-line-wrap-reindents-literal")
def _c11_wrap(rec):
    """fix_line_lengths dedents a statement, hands it to black/compactify and re-indents every line of the result, including the
    interior lines of a multi-line literal: the literal's value changes."""
    return _c11(rec, ("fixes.fix_line_lengths", "formatting.format_with_black", "formatting.collapse_trailing_parentheses"), "multiline")


@classifier("layout-compactify-misplaces-after-multiline-literal")
def _c11_compactify(rec):
    """compactify.format_code (collapse_trailing_parentheses) tracks indentation by physical lines; after a triple-quoted literal whose
    interior lines are indented less than the statement it re-indents the following statement (a `return` moves out of its block)."""
    d = rec.get("detail") or {}
    if rec.get("kind") != "layout_stage_changed_tree" or d.get("stage") not in ("formatting.collapse_trailing_parentheses", "fixes.fix_line_lengths"):
        return False
    if d.get("string_constants_only"):
        return False
    src = rec.get("input") or ""
    return re.search(r"('''|\"\"\")[^'\"]*\n[^'\"]*\n", src) is not None


@classifier("common-head-moved-before-effectful-test")
def _c16_common_head(rec):
    """breakout_common_code_in_ifs moves a statement that starts every branch to before the if; when the test itself has an
    effect (a call) the order of the two effects is swapped, and if the statement raises or returns the test is never evaluated.
    The repository's own examples expect this reordering (`if random.random() < 2: print(100) ...`)."""
    rule, before, after = _step(rec)
    if rule != "fixes.breakout_common_code_in_ifs" or rec.get("kind") not in ("deleted_code_was_observable", "step_changes_behaviour", "program_behaves_differently"):
        return False
    tree = _parse(before or "")
    if tree is None:
        return False
    for node in ast.walk(tree):
        if isinstance(node, ast.If) and node.orelse and any(isinstance(n, ast.Call) for n in ast.walk(node.test)):
            a, b = node.body[0], node.orelse[0]
            while isinstance(b, ast.If) and ast.dump(a) != ast.dump(b) and b.body:
                b = b.body[0]
            while isinstance(a, ast.If) and ast.dump(a) != ast.dump(b) and a.body:
                a = a.body[0]
            if ast.dump(a) == ast.dump(b):
                return True
    return False


# ----------------------------------------------------------------------------------------- C20
@classifier("ignore-comment-not-honoured-by-direct-edits")
def _c20_direct(rec):
    """Rules that edit the text through the direct back-end (processing.alter_code / remove_nodes / _insert_nodes / _replace_nodes:
    move_before_loop, the duplicate-import and sort-import rules, missing_context_manager, swap_if_else's implicit form,
    remove_duplicate_functions, ...) never consult has_ignore_comment for the lines they delete or move: the code of an annotated
    line is removed or moved and the bare comment stays behind."""
    d = rec.get("detail") or {}
    return rec.get("kind") == "ignored_line_not_carried_over" and d.get("direct_edit_backend") is True and not d.get("scheduled_backend")
