"""Classifiers for known findings: pure functions `violation record -> bool`, one per mechanism.

A classifier is only active for a property when KNOWN_FINDINGS.txt lists its key for that
property. Classifiers recognise mechanisms (rule + shape of the edit), never seeds or hashes.
"""
from __future__ import annotations

import ast
import re

CLASSIFIERS = {}


def classifier(key):
    def deco(fn):
        CLASSIFIERS[key] = fn
        return fn

    return deco


# ----------------------------------------------------------------------------------------- C10
@classifier("sched-insert-at-deleted-start-lost")
def _c10_insert_lost(rec):
    """An insertion scheduled at exactly the start of a range deleted in the same pass is applied after the
    deletion's whitespace clean-up shifted the offsets; when the following line carries an ignore comment the
    shifted insertion is silently refused."""
    if rec.get("kind") != "result_differs_from_spliced_schedule":
        return False
    sched = (rec.get("detail") or {}).get("scheduled") or []
    src = rec.get("input") or ""
    if not re.search(r"#\s*pyrefact\s*:\s*ignore", src):
        return False
    dels = {tuple(r)[0] for r, new in sched if not new and r[0] != r[1]}
    ins = {tuple(r)[0] for r, new in sched if new and r[0] == r[1]}
    return bool(dels & ins)


# ----------------------------------------------------------------------------------------- C12
def _subset_spans(rec):
    d = rec.get("detail") or {}
    impl, ref = d.get("implementation"), d.get("reference")
    if not isinstance(impl, list) or not isinstance(ref, list):
        return False
    ref = {tuple(x) for x in ref}
    return all(tuple(x) in ref for x in impl) and len(impl) < len(ref)


@classifier("match-toplevel-sequence-quantifier")
def _c12_toplevel_quant(rec):
    """Statement-sequence patterns are matched against windows of exactly len(pattern) statements, each statement
    against one template: a ?, * or + wildcard standing directly in the sequence never matches anything."""
    d = rec.get("detail") or {}
    return (rec.get("kind") == "search_mismatch" and d.get("pattern_kind") == "seq" and bool(d.get("toplevel_quantifier"))
            and _subset_spans(rec))


@classifier("match-list-split-not-backtracked")
def _c12_no_backtracking(rec):
    """_match_list returns the first internally consistent split of a list; when that split binds a named
    wildcard differently from an occurrence outside the list, no other split is tried and the match is missed."""
    d = rec.get("detail") or {}
    if rec.get("kind") != "search_mismatch" or not _subset_spans(rec):
        return False
    pat = d.get("pattern") or ""
    names = re.findall(r"\{\{(\w+)\}\}", pat)
    repeated = any(names.count(n) >= 2 for n in set(names))
    quantified = re.search(r"\{\{(?:\w+|\.\.\.)[?*+]\}\}", pat) is not None
    return repeated and quantified and d.get("pattern_kind") != "seq"


# ----------------------------------------------------------------------------------------- C14
@classifier("sub-textual-instantiation-ignores-precedence")
def _c14_precedence(rec):
    """Replacement templates are instantiated by pasting the printed binding into the template text; a binding
    whose precedence is lower than the hole's context (`{{x}} * 2` with x = `a + b`) denotes another tree."""
    d = rec.get("detail") or {}
    return rec.get("kind") == "tree_differs_from_reference_substitution" and d.get("explained_by_textual_instantiation") is True
