"""Entry point: ./check <property id> [--tier quick|thorough] [--replay path]"""
from __future__ import annotations

import argparse
import importlib
import json
import os
import sys
import traceback

from . import env


def main(argv=None) -> int:
    ap = argparse.ArgumentParser(prog="check")
    ap.add_argument("prop")
    ap.add_argument("--tier", choices=["quick", "thorough"], default=None)
    ap.add_argument("--replay", default=None)
    ap.add_argument("--seed", type=int, default=None)
    args = ap.parse_args(argv)
    if args.tier:
        os.environ["VERIF_TIER"] = args.tier
    if args.seed is not None:
        os.environ["VERIF_SEED"] = str(args.seed)
    if args.prop == "setup":
        return 0 if env.ensure_deps() else 1
    prop = args.prop.upper()
    if not env.ensure_deps():
        print(f"INCONCLUSIVE property={prop} reason=offline dependency install failed")
        return 2
    if not (env.REPO / "pyrefact" / "__init__.py").exists():
        print(f"INCONCLUSIVE property={prop} reason=no pyrefact package under {env.REPO}")
        return 2
    try:
        mod = importlib.import_module(f"harness.checks.{prop.lower()}")
    except ModuleNotFoundError:
        print(f"unknown property {prop}")
        return 2
    try:
        if args.replay:
            with open(args.replay) as f:
                rec = json.load(f)
            return mod.replay(rec)
        return mod.main()
    except Exception:
        traceback.print_exc()
        print(f"INCONCLUSIVE property={prop} reason=harness crashed (see traceback)")
        return 2


if __name__ == "__main__":
    sys.exit(main())
