"""Effect sanitizer: run a callable while an audit hook and a stdout/stderr capture watch for effects."""
from __future__ import annotations

_AUDIT = {"on": False, "events": [], "installed": False}
_WATCH = {"os.remove", "os.rename", "os.mkdir", "os.rmdir", "os.system", "subprocess.Popen", "builtins.input", "builtins.input/result",
          "builtins.breakpoint", "socket.connect", "socket.bind", "os.chdir", "os.chmod", "shutil.rmtree", "os.unlink", "os.truncate"}


LAST = {"exc": None}
# debug lines that the compactify dependency prints on its own logger; not an effect of the analysed code
THIRD_PARTY_LOG_LINES = {"Source is not valid python."}


def _audit(event, args):
    if not _AUDIT["on"]:
        return
    if event == "open":
        mode = args[1] if len(args) > 1 else None
        if isinstance(mode, str) and any(c in mode for c in "wax+"):
            _AUDIT["events"].append(f"open:{mode}")
    elif event in _WATCH:
        _AUDIT["events"].append(event)


def observed(fn):
    """Run fn() under the effect sanitizer: returns (status, value, effects)."""
    import io
    import sys

    if not _AUDIT["installed"]:
        sys.addaudithook(_audit)
        _AUDIT["installed"] = True
    buf = io.StringIO()
    old_out, old_err = sys.stdout, sys.stderr
    sys.stdout = sys.stderr = buf
    _AUDIT["events"] = []
    _AUDIT["on"] = True
    try:
        try:
            val = fn()
            status = "value"
        except BaseException as exc:  # SystemExit, KeyboardInterrupt included
            if type(exc).__name__ == "CpuBudget":
                raise
            val, status = None, "raise:" + type(exc).__name__
            LAST["exc"] = exc
    finally:
        _AUDIT["on"] = False
        sys.stdout, sys.stderr = old_out, old_err
    effects = list(_AUDIT["events"])
    printed = "".join(l for l in buf.getvalue().splitlines(keepends=True) if l.strip() not in THIRD_PARTY_LOG_LINES)
    if printed:
        effects.append("stdout:" + printed[:40])
    return status, val, effects


