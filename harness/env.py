"""Paths, seeds, tiers and dependency bootstrap shared by every check."""
from __future__ import annotations

import hashlib
import json
import os
import pathlib
import random
import shutil
import subprocess
import sys
import tempfile

VERIF = pathlib.Path(__file__).resolve().parent.parent
REPO = pathlib.Path(os.environ.get("VERIF_REPO", "/repo")).resolve()
PY = os.environ.get("VERIF_PYTHON", "/venv/bin/python")
DEPS = VERIF / ".deps"
WHEELS = "/opt/veriftools/wheels"
GUARD = "PYREFACT_VERIF"


def seed() -> int:
    try:
        return int(os.environ.get("VERIF_SEED", "0"))
    except ValueError:
        return 0


def tier() -> str:
    t = os.environ.get("VERIF_TIER", "quick")
    return t if t in ("quick", "thorough") else "quick"


def rng(*parts) -> random.Random:
    """Deterministic stream: independent of worker count / completion order."""
    return random.Random(":".join(str(p) for p in (seed(),) + parts))


def digest(text: str | bytes) -> str:
    if isinstance(text, str):
        text = text.encode("utf-8", "surrogatepass")
    return hashlib.sha1(text).hexdigest()[:16]


def ensure_deps(packages=("icontract", "numpy")) -> bool:
    """Install third-party helpers from the offline wheelhouse into /verif/.deps (idempotent)."""
    marker = DEPS / ".installed"
    want = " ".join(sorted(packages))
    if marker.exists() and marker.read_text() == want:
        return True
    DEPS.mkdir(exist_ok=True)
    cmd = [
        PY, "-m", "pip", "install", "--quiet", "--no-index", "--find-links", WHEELS,
        "--target", str(DEPS), "--upgrade", *packages,
    ]
    env = dict(os.environ, PIP_NO_INDEX="1", PIP_DISABLE_PIP_VERSION_CHECK="1")
    proc = subprocess.run(cmd, env=env, stdout=subprocess.PIPE, stderr=subprocess.STDOUT, text=True)
    if proc.returncode != 0:
        sys.stderr.write(proc.stdout)
        return False
    marker.write_text(want)
    return True


_SCRATCH = None


def scratch() -> pathlib.Path:
    """Private scratch directory outside /repo and /verif, removed at exit."""
    global _SCRATCH
    if _SCRATCH is None:
        base = os.environ.get("VERIF_SCRATCH") or tempfile.gettempdir()
        _SCRATCH = pathlib.Path(tempfile.mkdtemp(prefix="pyrefact-verif-", dir=base))
        import atexit

        atexit.register(shutil.rmtree, str(_SCRATCH), True)
    return _SCRATCH


def worker_env(hashseed: str | int = 0, extra: dict | None = None) -> dict:
    env = dict(os.environ)
    env["PYTHONHASHSEED"] = str(hashseed)
    env["PYTHONDONTWRITEBYTECODE"] = "1"
    env["VERIF_REPO"] = str(REPO)
    env[GUARD] = "1"
    env["PYTHONPATH"] = os.pathsep.join([str(REPO), str(VERIF)])
    env["PYTHONBREAKPOINT"] = "0"
    env.pop("PYTHONSTARTUP", None)
    if extra:
        env.update({k: str(v) for k, v in extra.items()})
    return env


def dump_json(path, obj) -> None:
    path = pathlib.Path(path)
    path.parent.mkdir(parents=True, exist_ok=True)
    tmp = path.with_suffix(path.suffix + ".tmp")
    tmp.write_text(json.dumps(obj, indent=1, sort_keys=True, default=str) + "\n")
    tmp.replace(path)
