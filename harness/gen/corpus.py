"""G3 (the repository's own example programs) and G4 (standard-library files) corpora."""
from __future__ import annotations

import ast
import functools
import os
import pathlib
import sysconfig
import textwrap

from .. import env


@functools.lru_cache(maxsize=None)
def repo_examples(min_lines: int = 1):
    """Distinct multi-line string constants in /repo/tests/**/*.py that are valid Python (after dedent).

    Returns a sorted list of (origin, text). Mined at run time from the working tree.
    """
    seen = {}
    root = env.REPO / "tests"
    for path in sorted(root.rglob("*.py")):
        try:
            tree = ast.parse(path.read_text(encoding="utf-8"))
        except (SyntaxError, UnicodeDecodeError, OSError):
            continue
        for node in ast.walk(tree):
            if isinstance(node, ast.Constant) and isinstance(node.value, str) and "\n" in node.value:
                text = node.value
                if not text.strip() or text.count("\n") < min_lines:
                    continue
                try:
                    ast.parse(textwrap.dedent(text))
                except (SyntaxError, ValueError, RecursionError):
                    continue
                seen.setdefault(text, f"{path.relative_to(env.REPO)}:{node.lineno}")
    return sorted(((origin, text) for text, origin in seen.items()), key=lambda t: (t[0], t[1]))


@functools.lru_cache(maxsize=None)
def stdlib_files(max_bytes: int = 12000, min_bytes: int = 400, limit: int | None = None):
    """(path, text) of standard-library modules of the running interpreter within a size window."""
    std = pathlib.Path(sysconfig.get_paths()["stdlib"])
    out = []
    for path in sorted(std.glob("*.py")) + sorted(std.glob("*/*.py")):
        parts = set(path.parts)
        if parts & {"test", "tests", "site-packages", "idlelib", "lib2to3", "turtledemo", "__pycache__"}:
            continue
        try:
            size = path.stat().st_size
            if not (min_bytes <= size <= max_bytes):
                continue
            text = path.read_text(encoding="utf-8")
            ast.parse(text)
        except (OSError, UnicodeDecodeError, SyntaxError, ValueError):
            continue
        out.append((str(path), text))
    if limit is not None:
        step = max(1, len(out) // limit)
        out = out[::step][:limit]
    return out


def pyrefact_sources():
    out = []
    for path in sorted((env.REPO / "pyrefact").glob("*.py")):
        try:
            text = path.read_text(encoding="utf-8")
            ast.parse(text)
        except (OSError, SyntaxError):
            continue
        out.append((str(path), text))
    return out
