"""G5 - hostile text inputs: a construct zoo covering Python 3.12 syntax, adversarial constant expressions,
layout torture, character-level mutants, degenerate strings."""
from __future__ import annotations

import ast

CONSTRUCTS = {
    # a u-prefixed literal whose value is also spelled without the prefix (more often), inside a loop that a rule rewrites as a comprehension
    "u_prefix_with_plain_twins": 'names = []\nfor item in range(3):\n    names.append(u"key")\nprint("key", \'key\', "key", names)\n',
    "U_prefix_in_rewritten_call": "values = list()\nfor k in ('a', 'b'):\n    values.append((U'tag', k))\nprint('tag', 'tag', 'tag', values)\n",
    # two blanks per level, eight per level: what a rule that shifts a block by four columns makes of them
    "two_space_indentation": "def pick(xs):\n  for x in xs:\n    if x > 1:\n      return x\n    else:\n      print(x)\n      continue\n  if False:\n    print('never')\n  else:\n    y = 1\n    return y\n\n\nprint(pick([1, 2]))\n",
    "two_space_loop_jumps": "def scan(xs):\n  out = []\n  for x in xs:\n    if x:\n      out.append(x)\n      break\n    else:\n      if True:\n        out.append(0)\n        continue\n  while out:\n    if 1:\n      out.pop()\n      break\n  return out\n\n\nprint(scan([0, 1]))\n",
    "eight_space_indentation": "def pick(xs):\n        for x in xs:\n                if x > 1:\n                        return x\n                else:\n                        print(x)\n        return None\n\n\nprint(pick([1, 2]))\n",
    'formfeed_sections': "import os\n\x0c\nNAMES = [\n    'a\tb',\n    'c',\n]\n\x0c\nS = [\n    '''x   \ny''',\n]\nprint(NAMES, S, os.sep)\n",
    'yield_and_walrus_in_append_loops': 'def gen(xs):\n    out = []\n    for x in xs:\n        out.append((yield x))\n    return out\n\n\ndef walrus(xs):\n    out = []\n    for x in xs:\n        out.append(y := x + 1)\n    return out, y\n\n\ndef gen2(xs):\n    seen = set()\n    for x in xs:\n        seen.add((yield from x))\n    return seen\n\n\nprint(list(gen([1, 2])), walrus([1]), list(gen2([[1], [2]])))\n',
    'nonlocal_and_global_camel_names': 'totalCount = 0\n\n\ndef outerFn():\n    someValue = 1\n\n    def inner():\n        nonlocal someValue\n        global totalCount\n        someValue += 1\n        totalCount += 1\n        return someValue\n\n    return inner()\n\n\nprint(outerFn(), totalCount)\n',
    'names_without_ascii_letters': 'π = 3.14\n\n\ndef Δ(x):\n    return x\n\n\nclass Ω:\n    pass\n\n\nprint(π, Δ(1), Ω)\n',
    'else_with_blank_before_colon': 'def f(x):\n    if x:\n        return 1\n    else :\n        y = 2\n    return y\n\n\nfor i in range(2):\n    if i:\n        continue\n    else :\n        print(i)\nprint(f(0))\n',
    'typevar_tuple_assignment': "from typing import TypeVar\nT, U = TypeVar('T'), TypeVar('U')\nK = TypeVar('K')\nprint(T, U, K)\n",
    'fstring_with_doubled_braces': 'x = 1\nprint(f"{{}} {{{x}}}", f\'{{x}}\', f\'{{{{}}}}{x}\')\n',
    'bare_raise_in_handler': "def f():\n    try:\n        return 1\n    except ValueError:\n        raise\n    except (KeyError, IndexError):\n        print('k')\n        raise\n\n\ntry:\n    pass\nexcept:\n    raise ValueError()\nprint(f())\n",
    'nested_unpackings': 'd = {1: 2}\nprint({*{**d}}, [*(*d,)], {**{**d}}, (*[*d],))\n',
    'augmented_loops': 'x = 0\ny = 1\nz = []\nfor i in range(3):\n    x -= i\nfor i in range(1, 3):\n    y //= i\nfor i in range(3):\n    z *= 2\nprint(x, y, z)\n',
    'star_import_from_main': "from __main__ import *\nfrom os.path import *\nprint(join('a', 'b'))\n",
    'math_sums': 'print(sum(x % 3 for x in range(10)), sum(not x for x in range(3)), sum([1, 2] == x for x in range(3)), sum(2 ** x for x in range(10)), sum(x ** x for x in range(4)))\n',
    # methods whose parameters are positional-only, self / cls unused
    "posonly_methods": 'class Shape:\n    def area(self, /):\n        return 1\n\n    def scale(self, /, *, factor=2):\n        return factor\n\n    @classmethod\n    def make(cls, /):\n        return 3\n\n    def both(self, other, /, extra=None, *rest, **more):\n        return other\n\n\nprint(Shape().area(), Shape().scale(factor=3), Shape.make(), Shape().both(4))\n',
    "masked_literals_with_simple_escapes": 's = "name\tvalue\\n"\nt = \'\'\'two\\tlines \\\\ here\\n\nsecond\tline\'\'\'\nprint(repr(s), repr(t))\n',
    # literals that are set aside while the text is laid out (tabs, several lines) and also contain backslash escapes, group-reference look-alikes, nested f-strings
    "masked_literals_with_escapes": 's = "name\tvalue\\n"\nt = \'\'\'multi\\d line \\\\ \\n\nsecond\tline \\1 \\g<0>\'\'\'\nv = 1\nu = f\'\'\'head\t   \n\n\n\n{f"{v}"}  tail\t{v}\'\'\'\nw = f"{f\'{v}\'}\t{v!r:>{v}}"\nprint(repr(s), repr(t), repr(u), repr(w))\n',
    # trailing semicolons where a rule moves or deletes the statement before them
    "trailing_semicolons": 'def f(xs):\n    for x in xs:\n        y = 3;\n    return y\n\n\ndef g(xs):\n    total = 0\n    for x in xs:\n        k = 2; total += x * k;\n    print(total); return total\n\n\nprint(f([1]), g([1, 2]))\n',
    # statements whose later lines are indented less than their first line, right after an import inside a block
    "import_then_dedented_literal": 'if flag:\n    import os\n    print("""\nabc""")\n',
    "import_then_dedented_brackets": 'def f():\n    import json\n\n\n\n    x = [\n  1,\n  2]\n    text = """\nleft\n"""\n    return x, text, json\n',
    "match": "match command.split():\n    case [action]:\n        print(action)\n    case [action, obj]:\n        print(action, obj)\n    case Point(x=0, y=0) | {'k': 1, **rest}:\n        print('origin')\n    case [1, 2, *others] if others:\n        print(others)\n    case str() as s:\n        print(s)\n    case _:\n        pass\n",
    "type_alias": "type Point = tuple[float, float]\ntype Gen[T] = list[T]\n",
    "pep695": "def first[T](xs: list[T]) -> T:\n    return xs[0]\n\n\nclass Box[T, *Ts, **P]:\n    def get(self) -> T:\n        return self.v\n",
    "except_star": "try:\n    run()\nexcept* ValueError as eg:\n    print(eg)\nexcept* (TypeError, KeyError):\n    pass\n",
    "async": "import asyncio\n\n\nasync def main(n):\n    async with lock as l, other:\n        async for item in aiter_(n):\n            await asyncio.sleep(0)\n            yield item\n    result = [x async for x in agen() if await pred(x)]\n    return\n",
    "walrus": "if (n := len(data)) > 10:\n    print(n)\nwhile chunk := read():\n    process(chunk)\nprint([y for x in data if (y := f(x)) is not None])\n",
    "star_expr": "first, *rest = items\n*init, last = items\na, (b, *c), d = nested\nprint(*args, **kwargs)\nx = [*a, *b]\ny = {**p, **q}\nz = (*t,)\n",
    "params": "def f(a, b=1, /, c=2, *args, d, e=3, **kw):\n    return a, b, c, args, d, e, kw\n\n\ndef g(*, key):\n    return key\n\n\nlam = lambda x, /, y=1, *a, k, **kw: (x, y, a, k, kw)\n",
    "decorators": "@decorator\n@module.attr(1, key=2)\n@(lambda f: f)\ndef func():\n    pass\n\n\n@dataclass(frozen=True)\nclass C:\n    x: int = 0\n",
    "global_nonlocal": "counter = 0\n\n\ndef outer():\n    total = 0\n\n    def inner():\n        nonlocal total\n        global counter\n        total += 1\n        counter += 1\n        return total\n\n    return inner()\n",
    "fstrings": "name = 'x'\nprint(f'{name!r:>10} {name=} {1 + 1:{width}.{prec}} {{literal}}')\nprint(f\"{'nested ' + f'{name}'}\")\nprint(f'{name:{\"^\"}{10}}')\nprint(f'''multi\n{name}\nline''')\nprint(rf'\\d{name}', fr'\\w', b'bytes', rb'\\raw', Rb'\\x')\n",
    "strings": "a = 'single' \"implicit\" 'concat'\nb = '''triple\n\n\n\nwith blank lines'''\nc = \"tab\\there\"\nd = 'trailing spaces   '\ne = \"\"\"doc with trailing   \n   spaces\"\"\"\nf = r'raw\\n'\ng = '\\N{BULLET} \\u2022 \\x41 \\101'\n",
    "continuations": "total = 1 + \\\n    2 + \\\n    3\nif a and \\\n   b:\n    pass\nwith open('a') as f, \\\n     open('b') as g:\n    pass\n",
    "semicolons": "a = 1; b = 2; print(a, b)\nif a: b = 3; c = 4\nfor i in x: print(i); continue\n",
    "one_liners": "if x: pass\nelse: print(1)\nwhile x: break\nclass K: pass\ndef f(): return 1\ntry: g()\nexcept E: pass\nfinally: h()\nwith a: b\n",
    "comprehensions": "a = [x for x in xs if x if x > 1 for y in ys]\nb = {k: v for k, v in d.items()}\nc = {x for x in xs}\nd = (x for x in xs)\ne = [[y for y in x] for x in xs]\nf = [x async for x in y]\n",
    "slices": "a = x[1:2, ::3, ...]\nb = x[:, None]\nc = x[a:b:c]\nd = x[()]\ne = x[1,]\nx[1:2] = []\ndel x[0], y.attr, z\n",
    "lambda_ternary": "f = lambda: (yield)\ng = a if b else c if d else e\nh = not a or b and c\ni = a < b <= c != d is not e not in f\n",
    "numbers": "a = 0x_FF + 0o17 + 0b1_0 + 1_000_000 + 1e-3 + 1.5j + .5 + 5. + 0xDEAD\nb = -1 ** 2\nc = ~-+1\nd = 1 if 0 else 2\n",
    "classes": "class A(B, metaclass=M, key=1):\n    '''doc'''\n    x: int\n    y: str = 'a'\n    __slots__ = ('x',)\n\n    def __init__(self):\n        super().__init__()\n        self.z = 1\n\n    @property\n    def p(self):\n        return self._p\n\n    @p.setter\n    def p(self, v):\n        self._p = v\n\n    @classmethod\n    def c(cls): ...\n\n    @staticmethod\n    def s(): ...\n",
    "try_full": "try:\n    a()\nexcept (A, B) as e:\n    raise C from e\nexcept D:\n    raise\nexcept:\n    pass\nelse:\n    b()\nfinally:\n    c()\n",
    "with_paren": "with (open('a') as f, open('b') as g):\n    pass\nwith (yield):\n    pass\nwith a as (b, c), d as e.f, g as h[0]:\n    pass\n",
    "loops_else": "for i in range(3):\n    if i:\n        break\nelse:\n    print('no break')\nwhile x:\n    x -= 1\nelse:\n    print('done')\n",
    "generators": "def gen():\n    x = yield 1\n    yield from other()\n    y = yield\n    return x\n\n\nasync def agen():\n    yield 1\n",
    "annotations": "x: int\ny: 'List[int]' = []\nself.z: Dict[str, int] = {}\n(a): int = 1\ndef f(a: int = 1, *b: str, **c: float) -> None: ...\n",
    "imports": "import os, sys\nimport a.b.c as d\nfrom . import x\nfrom .. import y as z\nfrom .pkg import (p,\n                  q as r,)\nfrom m import *\nfrom __future__ import annotations\n",
    "dunder_main": "def main():\n    return 0\n\n\nif __name__ == '__main__':\n    import sys\n    sys.exit(main())\n",
    "chained_calls": "result = (obj.method(1)\n          .other(key=2)[3]\n          .attr\n          (4))\nx = a.b.c.d(e)(f)[g][h:i]\n",
    "assert_del_pass": "assert x, 'message'\nassert (x,\n        y)\ndel a\npass\n...\n",
    "augassign": "a += 1; b -= 2; c *= 3; d /= 4; e //= 5; f %= 6; g **= 7; h >>= 8; i <<= 9; j &= 1; k ^= 2; l |= 3; m @= n\nx.y += 1\nx[0] -= 1\n",
    "unicode": "héllo = 'wörld'\nprint(héllo, 'Ω≈ç√∫', '日本語', '\\u00e9')\nclass Ünï: pass\n# cömment\n",
    "long_lines": "very_long_variable_name = some_function_with_a_long_name(argument_number_one, argument_number_two, argument_number_three, argument_number_four, argument_number_five)\nx = 'a very long string literal that goes past the line length limit of one hundred characters for sure, yes indeed it does'\n",
    "comments": "# leading comment\nx = 1  # trailing\n# x = 2\n# if commented_out_code():\n#     pass\n\n\ndef f():\n    # only a comment\n    pass\n    # trailing comment in block\n# noqa: E501\n# type: ignore\n#!shebang-like\n",
    "docstrings": "'''Module docstring.'''\n\n\ndef f():\n    \"\"\"Function docstring\n\n    with blank lines   \n    \"\"\"\n\n\nclass K:\n    'Class docstring'\n",
    "nested_functions": "def a():\n    def b():\n        def c():\n            return lambda: [i for i in range(3) if (lambda j: j)(i)]\n        return c\n    return b\n",
    "empty_bodies": "def f(): ...\nclass E(Exception): ...\nif x:\n    pass\nelse:\n    pass\nfor _ in []:\n    pass\nwhile False:\n    pass\n",
    "conditional_defs": "if sys.version_info >= (3, 8):\n    def f(): return 1\nelse:\n    def f(): return 2\ntry:\n    import fast as impl\nexcept ImportError:\n    impl = None\n",
    "print_chev": "print('a', file=sys.stderr, end='')\nexec('x = 1')\neval('x')\n",
    "ellipsis_slices": "def f() -> Callable[..., int]: ...\nx: tuple[int, ...] = ()\n",
    "set_dict_literals": "a = {1, 2, 1}\nb = {1: 'a', 2: 'b', 1: 'c'}\nc = {*a, 3}\nd = {}\ne = set()\nf = {(1, 2): [3]}\n",
    "bool_context": "if x == None or y != None or z == True or w is False:\n    pass\nif not x is None and not y in z:\n    pass\nif len(x) == 0 or len(y) > 0:\n    pass\n",
    "string_format": "a = '%s %d' % (x, y)\nb = '{} {name}'.format(1, name=2)\nc = '%(k)s' % {'k': 1}\nimport logging\nlogging.info(f'{x} done')\nlogging.warning('%s' % x)\nlogging.error('{}'.format(x))\n",
    "while_true": "while True:\n    line = read()\n    if not line:\n        break\n    if line.startswith('#'):\n        continue\n    process(line)\n",
    "star_imports_all": "__all__ = ['a', 'b']\n__all__ += ['c']\n__all__.extend(['d'])\n__version__ = '1.0'\n",
    "return_forms": "def f(x):\n    if x:\n        return\n    elif x is None:\n        return None\n    else:\n        return (1,\n                2)\n",
    "open_close": "f = open('file')\ndata = f.read()\nf.close()\n",
    "numpy_like": "import numpy as np\nc = np.array([[np.dot(a[i, :], b[:, j]) for j in range(3)] for i in range(3)])\nd = np.matmul(a.T, b.T).T\n",
    "pandas_like": "import pandas as pd\nfor i, row in df.iterrows():\n    print(row['a'])\nx = df.loc[0, 'a']\ny = df.iloc[0, 1]\n",
}

ADVERSARIAL_CONSTANTS = ["10 ** 10 ** 8", "9 ** 9 ** 9", "1 << 10 ** 9", "'ab' * 10 ** 12 == ''", "sum(1 // 0 for x in range(10))", "pow(2, 10 ** 10)", 
    "1/0", "1 < 'a'", "[] + 1", "2**10**6", "'a' * 10**8", "print(1)", "exit()", "input()", "open('c04_probe', 'w')", "1 // 0", "1 % 0",
    "int('x')", "[][0]", "{}['k']", "None.attr", "-'a'", "~1.5", "not []", "() < ()", "'a' in 1", "1 in 'a'", "len(5)", "abs('a')", "max([])",
    "float('inf') - float('inf')", "0 ** -1", "1 << -1", "1 << 10**6", "range(10**12)", "list(range(10**7))", "[0] * 10**8", "hash([])",
    "sorted([1, 'a'])", "sum(['a'])", "chr(-1)", "ord('ab')", "divmod(1, 0)", "round(1, 'a')", "bytes(-1)", "(1).__class__", "__import__('os').getcwd()",
    "quit()", "breakpoint()", "help()", "globals()", "dir()", "id(1)", "hash('a')", "iter(1)", "next(iter([]))", "pow(2, 10**9, 0)", "''.join([1])",
    "'%d' % 'a'", "'{}'.format()", "b'a' + 'a'", "1 if 1/0 else 2", "(lambda: 1/0)()", "[i for i in 1]", "{[]: 1}", "{1, []}", "f'{1/0}'", "1 @ 2",
    "True and 1/0", "False or 1/0", "0 and 1/0", "1 or 1/0", "1 == 1/0", "(1, 2) < (1, 'a')", "complex('x')", "float('1e400')", "10**400 * 1.0",
    # values that exist but that nobody can wait for (or hold in memory), reached through a call, a method or a format width
    "pow(7, 7 ** 8) > 1", "(10 ** 4000) ** 4000 > 1", "'a'.ljust(10 ** 10)", "'%0999999999d' % 1", "(9).__pow__(9 ** 9) > 1", "'{:>9999999999}'.format(1)", "'%*d' % (10 ** 9, 1)",
    "'abc'.center(10 ** 9)", "b'%0999999999d' % 1", "'a'.zfill(10 ** 10)", "(2).__lshift__(10 ** 10)", "'ab'.__mul__(10 ** 11)", "pow(10 ** 4000, 4000)", "bytes(10 ** 10)", "'x'.rjust(2 ** 40)",
]

CONDITION_TEMPLATES = [
    "if {E}:\n    print(1)\nelse:\n    print(2)\n",
    "while {E}:\n    print(1)\n    break\n",
    "x = 1 if {E} else 2\n",
    "y = {E} and f()\n",
    "z = f() or {E}\n",
    "assert {E}\n",
    "w = [i for i in range(3) if {E}]\n",
    "def f():\n    if {E}:\n        return 1\n    return 2\n",
    "for i in {E}:\n    print(i)\n",
    "v = not ({E})\n",
    "u = ({E}) == ({E})\n",
    "print(sum(i for i in range({E})))\n",
    "s = {{{E}, {E}}}\nd = {{{E}: 1}}\n",
    "t = sorted(({E}))[0]\n",
    "if x:\n    pass\nelif {E}:\n    print(3)\n",
    "r = [i for i in range({E}) if i > {E}]\n",
]

DEGENERATE = ["x = 1\n" + "\n" * 40 + "y = 2\n", "def f():\n    x = 1\n" + "   \n" * 45 + "    return x\n" + "\n" * 30 + "print(f())\n", "x = 1\n" + " \t\n" * 64 + "y = 2\n" + "\n" * 64,
              "x = 1\n\\\n\ny = 2\n", "\\\n\n", "x = 1 \\\n\n", "print(1) \\\n\n\n", "import os\nprint(os.sep) \\\n\n", "def f():\n    return 1 \\\n\n", "", " ", "\n", "\n\n\n", "\t", "   \n  \n", "\ufeff", "\ufeffx = 1\n", "\x00", "x = 1\x00\n", "#", "# only a comment", "pass", "...", "\\", "\\\n",
              "'''", "'unterminated", "(", ")", "x = (", "def f(", "def f():", "class", "if x:", "    x = 1", "\tx = 1\n\ty = 2\n", "  if x:\n      y = 1\n",
              "x = 1\r\ny = 2\r\n", "x = 1\ry = 2\r", "x = 1\x0cy = 2", "\x0c\nx = 1\n", "x = '\u2028'\n", "# pyrefact: skip_file", "x = 1  # pyrefact: ignore\n",
              "print 'python2'", "exec 'x'", "x = 0777", "async = 1", "match = 1; case = 2; type = 3; print(match, case, type)\n", "lambda: (yield)",
              "return 1", "yield 1", "await x", "break", "continue", "x = yield", "from __future__ import braces", "import", "from x import", "@decorator",
              "else:", "x ==", "x = = 1", "1 +", "a b", "f(**)", "f(*, a)", "def f(a, a): pass", "nonlocal x", "global x; x = 1", "x: int: str = 1",
              "x = 1 if 2", "[x for]", "{1: }", "{**}", "f'{'", "f'{x!z}'", "b'é'", "0x", "1_", "1__0", "1e", "x = $", "x = ?", "`x`", "x <> y", "?",
              "if True:\nprint(1)", "if True:\n\tprint(1)\n        print(2)", "def f():\n  return 1\n   x = 2", "class A:\n    def f(self):\n  pass",
              "x = 1\n" * 200, "if a:\n" + "".join("    " * i + f"if a{i}:\n" for i in range(1, 40)) + "    " * 40 + "pass\n",
              "x = " + "(" * 60 + "1" + ")" * 60 + "\n", "x = " + " + ".join(["1"] * 800) + "\n", "x = " + "[" * 40 + "]" * 40 + "\n",
              "def f():\n" + "    x = 1\n" * 300 + "    return x\n", "x = [\n" + "    1,\n" * 500 + "]\n", "s = '" + "a" * 5000 + "'\n",
              "a = b = c = d = e = f = 1\n", "a, b = b, a\n", "x = lambda: lambda: lambda: 1\n", "print(" + ", ".join(f"a{i}" for i in range(300)) + ")\n"]


def place(snippet: str, position: str) -> str:
    """first / last / nested / indented placement of a construct."""
    filler_a = "import os\n\nA = 1\n"
    filler_b = "\n\ndef tail(v):\n    return v + A\n\n\nprint(tail(2), os.sep)\n"
    ind = "".join("    " + l + "\n" if l.strip() else "\n" for l in snippet.splitlines())
    if position == "alone":
        return snippet
    if position == "first":
        return snippet + filler_b
    if position == "last":
        return filler_a + filler_b + "\n" + snippet
    if position == "last_no_newline":
        return (filler_a + filler_b + "\n" + snippet).rstrip("\n")
    if position == "nested_def":
        return filler_a + "\n\ndef wrapper(self, x, y):\n" + ind + filler_b
    if position == "nested_class":
        return filler_a + "\n\nclass Holder:\n    def method(self):\n" + "".join("    " + l + "\n" if l.strip() else "\n" for l in ind.splitlines()) + filler_b
    if position == "nested_if_last":
        return filler_a + "\nif A:\n" + ind
    if position == "indented_fragment":
        return ind
    if position == "indented_tabs":
        return "".join("\t" + l + "\n" if l.strip() else "\n" for l in snippet.splitlines())
    raise ValueError(position)


POSITIONS = ["alone", "first", "last", "last_no_newline", "nested_def", "nested_class", "nested_if_last", "indented_fragment", "indented_tabs"]


def mutate(text: str, r, n: int = 1) -> str:
    """Character-level mutation (mostly produces invalid programs)."""
    chars = list(text)
    alphabet = list("()[]{}:,.=+-*/'\"#\\ \n\t@;") + ["def ", "if ", "else", "  ", "\n    ", "return ", "lambda ", "0", "x"]
    for _ in range(n):
        if not chars:
            chars = list(r.choice(alphabet))
            continue
        k = r.randrange(len(chars))
        op = r.random()
        if op < 0.35:
            del chars[k]
        elif op < 0.7:
            chars.insert(k, r.choice(alphabet))
        elif op < 0.85:
            chars[k] = r.choice(alphabet)
        else:
            j = r.randrange(len(chars))
            chars[k], chars[j] = chars[j], chars[k]
    return "".join(chars)


def is_valid(text: str) -> bool:
    try:
        ast.parse(text)
        return True
    except (SyntaxError, ValueError, RecursionError, MemoryError):
        return False
