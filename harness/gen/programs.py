"""G1/G2 - closed, deterministic, terminating programs made of rule-triggering idioms.

Every idiom is a small parametric family written from a rule's own pattern, with fillers placed on and around the
rule's side conditions (pure expression / effectful call t(k) / name rebound later / read afterwards ...). Every
idiom prints what it computes, so a wrong rewrite reaches stdout. Programs are closed (no free names), deterministic
(no time/random/id, no printing of str sets), terminating (finite loops) and non-introspective by construction;
the execution oracle filters them all the same.
"""
from __future__ import annotations

import random

PRELUDE = "def t(k):\n    print('t', k)\n    return k\n"


class Ctx:
    def __init__(self, r: random.Random, style="plain"):
        self.r = r
        self.n = 0
        self.style = style
        self.tk = 0

    def name(self, base="v"):
        self.n += 1
        if self.style == "untidy":
            form = self.r.choice(["{b}{n}", "{b}Val{n}", "{B}{n}", "my_{b}{n}", "{b}_{n}_", "_{b}{n}"])
        else:
            form = "{b}{n}"
        return form.format(b=base, B=base.upper(), n=self.n)

    def t(self):
        self.tk += 1
        return f"t({self.tk})"

    def int_expr(self, vars_=(), effect=0.25):
        r = self.r
        k = r.random()
        if k < effect:
            return self.t()
        if vars_ and k < 0.6:
            return r.choice([f"{r.choice(vars_)} + {r.randint(0, 3)}", f"{r.choice(vars_)} * 2", r.choice(vars_), f"{r.choice(vars_)} % 3"])
        return str(r.randint(-2, 9))

    def int_list(self, n=None):
        n = self.r.randint(0, 5) if n is None else n
        return "[" + ", ".join(str(self.r.randint(-3, 9)) for _ in range(n)) + "]"

    def cond(self, var):
        r = self.r
        return r.choice([f"{var} > {r.randint(-1, 5)}", f"{var} % 2 == 0", f"{var} % 3", f"{var} != {r.randint(0, 4)}", f"not {var} % 2", f"{var} >= {r.randint(0, 3)} and {var} < {r.randint(4, 9)}",
                         f"{var} == {r.randint(0, 3)} or {var} > {r.randint(4, 7)}", f"{r.randint(0, 3)} < {var} <= {r.randint(4, 8)}"])


def ind(lines, n=1):
    return ["    " * n + l for l in lines]


# --------------------------------------------------------------------------------------------- idioms
def i_list_append_loop(c):
    r = c.r
    out, x, src = c.name("out"), c.name("i"), c.name("src")
    init = r.choice(["[]", "[]", "list()", "[0]", "[]"])
    kind = r.choice(["append", "append", "add", "plus", "minus"])
    lines = [f"{src} = {c.int_list(r.randint(0, 5))}"]
    if kind == "add":
        init = r.choice(["set()", "set()", "{7}"])
    if kind in ("plus", "minus"):
        init = r.choice(["0", "0", "10"])
    lines.append(f"{out} = {init}")
    if r.random() < 0.15:
        lines.append(f"print({out})")
    elt = r.choice([x, f"{x} * 2", f"{x} + len({src})", c.t() if r.random() < 0.5 else f"{x} - 1", f"({x}, {x})" if kind == "append" else x])
    if kind in ("plus", "minus"):
        elt = r.choice([x, f"{x} * 2", "1"])
    body = {"append": f"{out}.append({elt})", "add": f"{out}.add({elt})", "plus": f"{out} += {elt}", "minus": f"{out} -= {elt}"}[kind]
    if r.random() < 0.15 and kind == "append":
        body = f"{out}.append(len({out}) + {x})"  # element reads the accumulator
    loop = [f"for {x} in {src}:"]
    if r.random() < 0.5:
        cnd = c.cond(x) if r.random() < 0.8 else f"{c.t()} and {x}"
        loop += ind([f"if {cnd}:"] + ind([body]))
        if r.random() < 0.15:
            loop += ind(["else:"] + ind([r.choice([f"{out}.append(-1)" if kind == "append" else "pass", "pass"])]))
    else:
        loop += ind([body])
        if r.random() < 0.15:
            loop += ind([f"print('step', {x})"])
    if r.random() < 0.12:
        loop += ["else:"] + ind([f"print('loop done')"])
    lines += loop
    lines.append(f"print({'sorted(' + out + ')' if kind == 'add' else out})")
    if r.random() < 0.2 and src != "[]":
        lines.append(f"print({x} if {src} else None)")  # loop target read afterwards
    return lines


def i_dict_loop(c):
    r = c.r
    d, k, v, src = c.name("d"), c.name("k"), c.name("v"), c.name("src")
    lines = [f"{src} = {c.int_list(r.randint(0, 4))}", f"{d} = {r.choice(['{}', '{}', 'dict()', '{0: 0}'])}"]
    val = r.choice([f"{k} * 2", c.t(), f"{k} + 1", f"len({d})"])
    cnd = c.cond(k)
    if r.random() < 0.5:
        lines += [f"for {k} in {src}:"] + ind([f"if {cnd}:"] + ind([f"{d}[{k}] = {val}"]))
    else:
        lines += [f"for {k} in {src}:"] + ind([f"{d}[{k}] = {val}"])
    lines.append(f"print({d})")
    form = r.randrange(9)
    if form == 6:  # the dictionary is written through the key inside the loop
        lines += [f"for {k} in {d}.keys():"] + ind([r.choice([f"{d}[{k}] = 0", f"{d}[{k}] = {d}[{k}] * 2", f"{d}[{k}] += 1", f"print({d}[{k}])\n    {d}[{k}] = -1"])]) + [f"print({d})"]
    elif form == 7:  # nested container and a tuple key
        lines += [f"{v} = {{1: {d}, 2: {{}}}}", f"for {k} in {v}[2 ** 0].keys():"] + ind([r.choice([f"{v}[2 ** 0][{k}] = 0.5", f"print({v}[2 ** 0][{k}])"])]) + [f"print({v})"]
    elif form == 8:
        lines += [f"grid = {{(1, 2): 3, (4, 5): 6}}", f"for row, column in grid.keys():"] + ind([r.choice(["grid[row, column] = 0", "print(grid[row, column])", "print(row, grid[(row, column)])"])]) + ["print(grid)"]
    elif form == 0:
        lines += [f"for {k} in {d}.keys():"] + ind([f"print({k}, {d}[{k}])"])
    elif form == 1:
        lines += [f"for {k}, {v} in {d}.items():"] + ind([f"print({k})"])
    elif form == 2:
        lines += [f"for {k}, {v} in {d}.items():"] + ind([f"print({v})"])
    elif form == 3:
        lines += [f"for {k} in {d}:"] + ind([f"print({d}[{k}] + {k})"])
    elif form == 4:
        lines += [f"print([{d}[{k}] for {k} in {d}.keys()], [{k} for {k}, {v} in {d}.items()], [{v} for {k}, {v} in {d}.items()])"]
    else:
        lines += [f"for {k} in list({d}.keys()):"] + ind([f"{d}[{k} + 100] = {k}"]) + [f"print({d})"]
    return lines


def i_dict_literal_updates(c):
    r = c.r
    d, o = c.name("d"), c.name("o")
    lines = [f"{d} = {r.choice(['{}', '{1: 2}', '{1: 2, 3: 4}', '{k: k for k in range(2)}'])}"]
    for _ in range(r.randint(1, 3)):
        k = r.choice(["1", "5", "'a'", c.t(), "len(" + d + ")"])
        v = r.choice(["10", c.t(), f"len({d})", f"{d}.get(1, 0)"])
        lines.append(r.choice([f"{d}[{k}] = {v}", f"{d}.update({{{k}: {v}}})", f"{d}.update({{7: 8}}, x={v})" if "'" not in k else f"{d}[{k}] = {v}"]))
        if r.random() < 0.4:  # the state between two updates is observed: the updates cannot all be merged into the literal
            lines.append(r.choice([f"print(len({d}))", f"print(sorted({d}.items(), key=str))", f"{o} = dict({d})", f"print({d}.get(1), 5 in {d})"]))
    lines.append(f"print({d})")
    return lines


def i_collection_add_update(c):
    r = c.r
    x = c.name("x")
    kind = r.choice(["list", "set"])
    lines = [f"{x} = {c.int_list(r.randint(0, 3))}" if kind == "list" else f"{x} = {r.choice(['set()', '{1, 2}', 'set([3, 3])'])}"]
    for _ in range(r.randint(1, 3)):
        e = r.choice(["4", c.t(), f"len({x})", f"sum({x})"])
        if kind == "list":
            lines.append(r.choice([f"{x}.append({e})", f"{x}.extend([{e}, 5])", f"{x}.extend(({e},))", f"{x}.insert(0, {e})", f"{x}.extend(range(2))",
                                   f"{x}.extend({{7, 3, 5, 3}})", f"{x}.extend({{{e}, 11, 9}})", f"{x}.extend({{2: 'b', 1: 'a'}})", f"{x}.extend('ba')", f"{x}.extend(frozenset([9, 8]))"]))
        else:
            lines.append(r.choice([f"{x}.add({e})", f"{x}.update([{e}, 5])", f"{x}.update({{6}})", f"{x}.discard({e})"]))
        if r.random() < 0.35:  # the state between two updates is observed
            lines.append(r.choice([f"print(len({x}))", f"print(sorted({x}, key=str))", f"snap{c.n} = list({x})", f"print(4 in {x})"]))
        if r.random() < 0.2:
            y = c.name("alias")
            lines.append(f"{y} = {x}")
            lines.append(f"print({y} is {x})")
    lines.append(f"print({'sorted(' + x + ')' if kind == 'set' else x})")
    return lines


def i_if_return_bool(c):
    r = c.r
    f, a = c.name("check"), c.name("a")
    cnd = r.choice([c.cond(a), a, f"{a} % 2", f"[{a}] * {a}", f"{a} or None", f"{c.t()} and {a}", f"{a} and {a} - 1", f"not {a}"])
    tv, fv = r.choice([("True", "False"), ("False", "True"), ("True", "False"), ("1", "0"), ("True", "None")])
    shape = r.randrange(4)
    if shape == 0:
        body = [f"if {cnd}:"] + ind([f"return {tv}"]) + ["else:"] + ind([f"return {fv}"])
    elif shape == 1:
        body = [f"if {cnd}:"] + ind([f"return {tv}"]) + [f"return {fv}"]
    elif shape == 2:
        res = c.name("res")
        body = [f"if {cnd}:"] + ind([f"{res} = {tv}"]) + ["else:"] + ind([f"{res} = {fv}"]) + [f"return {res}"]
    else:
        res = c.name("res")
        body = [f"{res} = {fv}", f"if {cnd}:"] + ind([f"{res} = {tv}"]) + [f"print('mid', {res})" if r.random() < 0.3 else "pass", f"return {res}"]
    return [f"def {f}({a}):"] + ind(body) + [f"print([{f}(z) for z in (-1, 0, 1, 2, 3)])"]


def i_redundant_else(c):
    r = c.r
    f, a = c.name("pick"), c.name("a")
    exits = ["return 'x'", "raise ValueError('e')", "return None"]
    c1, c2 = c.cond(a), c.cond(a)
    shape = r.randrange(4)
    if shape == 0:
        body = [f"if {c1}:"] + ind([f"print('a', {a})", r.choice(exits)]) + ["else:"] + ind([f"print('b', {a})", "return 'y'"])
    elif shape == 1:
        body = [f"if {c1}:"] + ind([r.choice(exits)]) + [f"elif {c2}:"] + ind([f"return 'm'"]) + ["else:"] + ind([f"{a} += 1"]) + [f"return {a}"]
    elif shape == 2:
        body = [f"for q in range({a}):"] + ind([f"if q % 2:"] + ind(["continue"]) + ["else:"] + ind([f"print('q', q)"])) + ["return 'done'"]
    else:
        body = [f"if {c1}:"] + ind([f"if {c2}:"] + ind(["return 'in'"]) + ["else:"] + ind([f"print('deep', {a})"])) + ["else:"] + ind(["return 'out'"]) + ["return 'tail'"]
    call = f"for z in (-1, 0, 1, 2, 3, 6):\n    try:\n        print({f}(z))\n    except ValueError as e:\n        print('err', e)"
    return [f"def {f}({a}):"] + ind(body) + call.split("\n")


def i_swap_if_else(c):
    r = c.r
    a = c.name("a")
    c1 = c.cond(a)
    lines = [f"for {a} in range(-1, 5):"]
    shape = r.randrange(4)
    if shape == 0:
        lines += ind([f"if {c1}:"] + ind(["pass"]) + ["else:"] + ind([f"print('no', {a})"]))
    elif shape == 1:
        lines += ind([f"if {c1}:"] + ind([f"print('y', {a})", f"print('yy', {a} * 2)", f"print('yyy')", f"print('yyyy')"]) + ["else:"] + ind(["continue"]) + [f"print('after', {a})"])
    elif shape == 2:
        lines += ind([f"if not ({c1}):"] + ind([f"print('neg', {a})"]) + ["else:"] + ind([f"print('pos', {a})"]))
    else:
        lines += ind([f"if {c1}:"] + ind([f"print('one', {a})"]) + [f"if {c1}:"] + ind([f"print('two', {a})"]))
    return lines


def i_early_return(c):
    r = c.r
    f, a, x = c.name("calc"), c.name("a"), c.name("x")
    c1, c2 = c.cond(a), c.cond(a)
    body = [f"if {c1}:"] + ind([f"{x} = {a} + 1"]) + [f"elif {c2}:"] + ind([f"{x} = {a} * 2"] + ([f"print('side', {x})"] if r.random() < 0.3 else [])) + ["else:"] + ind([f"{x} = {r.choice(['0', c.t(), a])}"])
    if r.random() < 0.25:
        body += [f"{x} += 1"]
    body += [f"return {x}"]
    return [f"def {f}({a}):"] + ind(body) + [f"print([{f}(z) for z in range(-1, 6)])"]


def i_early_continue(c):
    r = c.r
    a, src = c.name("a"), c.name("src")
    c1 = c.cond(a)
    lines = [f"{src} = {c.int_list(r.randint(2, 5))}", f"for {a} in {src}:"]
    body = [f"print('got', {a})", f"print('twice', {a} * 2)", f"print('thrice', {a} * 3)"]
    if r.random() < 0.5:
        lines += ind([f"if {c1}:"] + ind(body))
    else:
        lines += ind([f"if {c1}:"] + ind(body) + ["else:"] + ind([r.choice(["continue", f"print('skip', {a})"])]))
    if r.random() < 0.3:
        lines += ind([f"print('always', {a})"])
    return lines


def i_filter_map_lambda(c):
    r = c.r
    src, res = c.name("src"), c.name("res")
    lam_arg = r.choice(["q", "q", src[0]])
    fn = r.choice([f"lambda {lam_arg}: {lam_arg} * 2", f"lambda {lam_arg}: {lam_arg} % 2", f"lambda {lam_arg}: ({lam_arg}, 1)", f"lambda {lam_arg}: {lam_arg} if {lam_arg} else -1", "t", "abs", f"lambda {lam_arg}, w=3: {lam_arg} + w"])
    which = r.choice(["map", "filter"])
    lines = [f"{src} = {c.int_list(r.randint(0, 5))}"]
    use = r.randrange(4)
    if use == 0:
        lines.append(f"{res} = list({which}({fn}, {src}))")
        lines.append(f"print({res})")
    elif use == 1:
        lines.append(f"{res} = {which}({fn}, {src})")
        lines.append(f"print(list({res}), list({res}))")  # an iterator is exhausted by the first list()
    elif use == 2:
        lines += [f"for w in {which}({fn}, {src}):"] + ind(["print('w', w)"])
    else:
        lines.append(f"print(sorted({which}({fn}, {src}), key=str), len(list({which}({fn}, {src}))))")
    return lines


def i_for_filter(c):
    r = c.r
    a, src = c.name("a"), c.name("src")
    lines = [f"{src} = {c.int_list(r.randint(1, 5))}"]
    shape = r.randrange(4)
    test = r.choice([a, f"{a} % 2", f"t({a})" if r.random() < 0.4 else f"{a} > 1"])
    if shape == 0:
        lines += [f"for {a} in {src}:"] + ind([f"if {test}:"] + ind([f"print('in', {a})"]))
    elif shape == 1:
        lines += [f"for {a} in {src}:"] + ind([f"if not {test}:"] + ind(["continue"]) + [f"print('in', {a})"])
    elif shape == 2:
        lines += [f"for {a} in {src}:"] + ind([f"if {test}:"] + ind([f"print('in', {a})"]) + [f"print('after', {a})"])
    else:
        lines += [f"for {a} in {src}:"] + ind([f"if {test}:"] + ind([f"print('in', {a})"]) + ["else:"] + ind([f"print('out', {a})"]))
    return lines


def i_comprehension_forms(c):
    r = c.r
    src, res = c.name("src"), c.name("res")
    lines = [f"{src} = {c.int_list(r.randint(0, 5))}"]
    e = r.choice([
        f"[q for q in {src}]", f"list(q for q in {src})", f"set([q for q in {src}])", f"list([q * 2 for q in {src}])", f"tuple([q for q in {src} if q])",
        f"[q for q in (w for w in {src})]", f"[q for q in [w + 1 for w in {src}] if q > 1]", f"sorted({{q for q in {{w for w in {src}}}}})",
        f"[*(q for q in {src})]", f"(*[q for q in {src}],)", f"sorted({{*{src}}})", f"[*{src}, *[1, 2]]", f"sorted(set({src} + [1, 1]))", f"list(iter({src}))",
        f"sum([q for q in {src}])", f"sorted(list({src}))", f"list(reversed(sorted({src})))", f"list(reversed(sorted({src}, reverse=True)))", f"sorted(sorted({src}), reverse=True)",
        f"list(list({src}))", f"set(set({src})) == set({src})", f"tuple(list({src}))", f"sum(list({src}))", f"list(sorted({src}))[:2]",
        f"{{k: v for k, v in zip({src}, {src})}}", f"dict([(q, q) for q in {src}])", f"{{k: v for k, v in {{1: 2}}.items()}}", f"[q for q in {src} if True]", f"[q for q in {src} if 0]",
        f"any([q > 2 for q in {src}])", f"all(q > 2 for q in {src})", f"max([q for q in {src}], default=0)", f"sorted({src})[0] if {src} else None", f"sorted({src})[-1] if {src} else None",
        f"sorted({src})[:2]", f"sorted({src}, key=lambda z: -z)[:2]", f"sorted({src}, reverse=True)[0] if {src} else None", f"[{src}[q] for q in range(len({src}))]",
        f"[(q, {src}[q]) for q in range(len({src}))]", f"3 in list({src})", f"3 in [1, 2, 3]", f"3 in sorted({src})", f"[q for q in range(10) if q > 2 if q < 8]", f"[q for q in range(2, 9) if q >= 4 and q != 6]",
        f"sum(q for q in range(5))", f"sum([q * q for q in range(1, 5)])", f"sum(range(len({src})))", f"len([q for q in {src}])", f"list(zip(*[{src}, {src}]))", f"[q for q, _ in zip({src}, range(3))]",
        f"[q for q in {src} for w in [1, 2] if False]", f"[q for q in {src} if 0 for w in [1, 2]]", f"[(q, w) for q in {src} if True for w in [1, 2] if 1]", f"{{q: w for q in {src} for w in 'ab' if ''}}",
        f"sorted({{q for q in {src} if 1 for w in () if w}})", f"[q for q in {src} if q if False]", f"list(q + w for q in {src} for w in (1,) if not None)", f"[q for q in {src} if not 0 if q > 1]",
        f"[w for _, w in enumerate({src})]", f"[w for _, w in zip(range(2), {src})]", f"list(x2 for x2 in list({src}))", f"list(itertools.chain({src}, [9]))", f"sorted(itertools.chain({src}, {src}))",
    ])
    lines.append(f"{res} = {e}")
    lines.append(f"print({res})")
    return lines


def i_literal_functions(c):
    r = c.r
    res = c.name("res")
    e = r.choice(["list()", "dict()", "tuple()", "set()", "list([1, 2])", "set((1, 2))", "tuple([1, 2])", "list((1, 2))", "dict(a=1)", "list(range(3))", "set([1, 1, 2])", "{1, 1, 2, True}",
                  "{1: 'a', 2: 'b', 1: 'c'}", "{1: 'a', True: 'b'}", "[*[1, 2], 3]", "{**{1: 2}, 3: 4}", "{**{1: 2}, 1: 4}", "(*[1], *[2])", "print(*[1, 2])", "max(*[1, 2])", "print(*(3, 4), sep='-')",
                  "len({*{1, 2}, 2})", "sorted({*[3, 1], *[1]})", "dict(**{'a': 1})", "dict({1: 2})", "{**{}}", "[*[]]", "frozenset([1])", "list(dict(a=1))"])
    if e.startswith("print"):
        return [e]
    return [f"{res} = {e}", f"print({'sorted(' + res + ')' if e.startswith(('set', '{1, 1')) else res})"]


def i_unused_and_pointless(c):
    r = c.r
    a, b, u = c.name("a"), c.name("b"), c.name("unused")
    lines = [f"{a} = {c.int_expr()}", f"{u} = {r.choice(['5', c.t(), '[1, 2]', a + ' + 1'])}", f"{b} = {a} + 1"]
    lines += [r.choice([f"{a}", "1 + 1", f"'{u}'", f"[{a}]", f"{a} == {b}", f"({a}, {b})", "None", f"{a} if {b} else {c.t()}", f"[{c.t()} for _ in range(2)]", f"{a} and {c.t()}", f"f'{{{a}}}'"])]
    if r.random() < 0.4:
        lines += [f"{u} = {b} * 2", f"print({u})"]
    if r.random() < 0.3:
        lines += [f"_ = {c.t()}"]
    if r.random() < 0.3:
        lines += [f"{a}, {u} = {b}, {a}", f"print({a})"]
    lines.append(f"print({a}, {b})")
    return lines


def i_dead_code(c):
    r = c.r
    f, a = c.name("flow"), c.name("a")
    cnd = r.choice(["True", "False", "0", "1", "()", "''", "'s'", "[]", "1 == 1", "1 > 2", "not 1", f"{a} == {a}", "None", "2 in [1, 2]", "len('ab') == 2"])
    body = [f"print('start', {a})", f"if {cnd}:"] + ind([f"print('then', {a})"] + ([f"return {a}"] if r.random() < 0.4 else []))
    if r.random() < 0.6:
        body += ["else:"] + ind([f"print('else', {a})"])
    if r.random() < 0.4:
        body += [f"while {r.choice(['False', '0', 'None'])}:"] + ind(["print('never')"])
    body += [f"for q in range({a}):"] + ind([f"if q > 1:"] + ind(["break", "print('unreachable')"] if r.random() < 0.5 else ["break"]) + ["print('q', q)"])
    if r.random() < 0.5:
        body += [f"return {a} + 1", "print('after return')"]
    else:
        body += [f"x9 = 1 if {cnd} else 2", "return x9"]
    return [f"def {f}({a}):"] + ind(body) + [f"print([{f}(z) for z in (0, 1, 3)])"]


def i_singleton_compare(c):
    r = c.r
    a = c.name("a")
    val = r.choice(["None", "0", "1", "True", "False", "''", "[]", "1.0", "0.0"])
    op = r.choice(["==", "!="])
    s = r.choice(["None", "True", "False"])
    return [f"{a} = {val}", f"print({a} {op} {s})", f"if {a} {op} {s}:"] + ind(["print('yes')"]) + ["else:"] + ind(["print('no')"])


def i_boolean_logic(c):
    r = c.r
    a, b = c.name("a"), c.name("b")
    atoms = [f"{a} > 1", f"{a} >= 1", f"{a} < 3", f"{a} <= 3", f"{a} == 2", f"{a} != 2", f"{b} > {a}", f"{b} == {a}", f"1 < {a}", f"3 >= {a}", f"{a} > 1", f"not {a} < 2", f"not ({a} == 1)"]
    x, y, z = r.sample(atoms, 3)
    e = r.choice([f"{x} and {y}", f"{x} or {y}", f"{x} and {y} and {z}", f"({x} or {y}) and {z}", f"not ({x} and {y})", f"not ({x} or not {y})", f"{x} and not {x}", f"{x} or not {x}", f"{x} and {x}",
                  f"({x} and {y}) or ({x} and {z})", f"{x} and True", f"False or {y}", f"{x} and ({y} or True)"])
    return [f"for {a} in range(0, 5):"] + ind([f"for {b} in (1, 3):"] + ind([f"print({a}, {b}, {e})", f"if {e}:"] + ind([f"print('T')"])))


def i_staticmethod_class(c):
    r = c.r
    K, m, n = c.name("Klass").capitalize(), c.name("meth"), c.name("other")
    blank = r.choice(["", "\n", "\n\n"])
    lines = []
    if r.random() < 0.5:
        pre = c.name("before")
        lines += [f"def {pre}(v):"] + ind(["w = v + 1", "return w * 2"]) + blank.split("\n")[:-1] if blank else [f"def {pre}(v):"] + ind(["w = v + 1", "return w * 2"])
        lines += [f"print({pre}(1))"] if r.random() < 0.5 else []
    deco = r.choice(["", "", "@staticmethod", "@classmethod"])
    first = {"": "self", "@staticmethod": None, "@classmethod": "cls"}[deco]
    args = ", ".join(x for x in (first, "v") if x)
    uses_self = r.random() < 0.3 and first
    body_m = [f"return {first}.{n}(v) + 1" if uses_self else "return v + 1"]
    lines += [f"class {K}:"] + ind(["factor = 3", ""] + ([deco] if deco else []) + [f"def {m}({args}):"] + ind(body_m) + ["", f"def {n}(self, v):"] + ind([f"return v * self.factor + {r.choice(['self.' + m + '(v)', K + '.' + m + '(v)' if deco else 'self.' + m + '(v)', '0'])}"]))
    lines += [f"obj = {K}()", f"print(obj.{n}(2), obj.{m}(3){', ' + K + '.' + m + '(4)' if deco else ''})"]
    if r.random() < 0.3:
        lines += [f"class Sub{K}({K}):"] + ind(["factor = 4"]) + [f"print(Sub{K}().{n}(1))"]
    return lines


def i_unconventional_class(c):
    r = c.r
    K = c.name("Conf").capitalize()
    lines = [f"class {K}:"] + ind([r.choice(["pass", "base = 1", "'''doc'''"])])
    lines += [f"{K}.alpha = {r.choice(['1', c.t(), K + '.base if hasattr(' + K + ', \"base\") else 0', 'len(\"ab\")'])}"]
    if r.random() < 0.5:
        lines += [f"{K}.beta = {r.choice(['2', K + '.alpha + 1', c.t()])}"]
    if r.random() < 0.3:
        lines += ["print('between')", f"{K}.gamma = 3"]
    lines += [f"print({K}.alpha, getattr({K}, 'beta', None), getattr({K}, 'gamma', None))"]
    return lines


def i_duplicate_functions(c):
    r = c.r
    f, g = c.name("dup"), c.name("dup")
    body1 = r.choice([["return a + b"], ["c = a * 2", "return c + b"], ["if a:", "    return b", "return a"]])
    body2 = [l.replace("a", "x").replace("b", "y").replace("c", "z") for l in body1]
    if r.random() < 0.25:
        body2 = [l.replace("+", "-", 1) for l in body2]  # not a duplicate after all
    d1 = r.choice(["", "", ", k=1"])
    d2 = d1 if r.random() < 0.7 else ", k=2"
    lines = [f"def {f}(a, b{d1}):"] + ind(body1) + ["", "", f"def {g}(x, y{d2.replace('k', 'k')}):"] + ind(body2) + ["", ""]
    lines += [f"print({f}(1, 2), {g}(1, 2), {f}(0, 5), {g}(0, 5))"]
    if r.random() < 0.4:  # bodies that differ only in a constant, of the same or of another type (1 / 1.0 / True, '1' / b'1', None / ...)
        k1, k2 = r.choice([("1", "1.0"), ("1", "True"), ("'1'", "b'1'"), ("0", "False"), ("None", "..."), ("2.5", "2.5"), ("1.5", "2.5"), ("1j", "1"), ("(1, 2)", "(1, 2.0)"), ("b'a'", "b'b'")])
        h1, h2 = c.name("konst"), c.name("konst")
        lines += [f"def {h1}(q):", f"    return [q, {k1}]", "", "", f"def {h2}(w):", f"    return [w, {k2}]", "", "", f"print({h1}(0), {h2}(0))"]
    if r.random() < 0.3:
        lines += [f"{g} = {f}", f"print({g}(2, 2))"]
    if r.random() < 0.4:  # recursive duplicates whose names differ in length; duplicates that call one another, on their last line
        short, long_ = c.name("rec"), c.name("recursive_twin_with_a_longer_name")
        if r.random() < 0.5:
            short, long_ = long_, short
        form = r.randrange(3)
        if form == 0:
            mk = lambda n: [f"def {n}(n):", f"    return {n}(n - 1) * n if n else 1"]  # noqa: E731
        elif form == 1:
            mk = lambda n: [f"def {n}(n):", "    if n <= 0:", "        return 0", f"    return n + {n}(n - 1)"]  # noqa: E731
        else:
            mk = lambda n: [f"def {n}(n, acc=()):", f"    return acc if not n else {n}(n - 1, acc + (n,))"]  # noqa: E731
        lines += mk(short) + ["", ""] + mk(long_) + ["", "", f"print({short}(3), {long_}(4))", f"print('after the twins', {long_}(2))"]
    return lines


def i_imports(c):
    r = c.r
    mods = r.sample(["os", "sys", "math", "json", "re", "itertools", "functools", "collections", "string", "heapq"], 4)
    lines = [f"import {mods[0]}", f"import {mods[1]}, {mods[2]}", f"import {mods[0]}", f"from {mods[3]} import *" if mods[3] in ("math", "string") and r.random() < 0.3 else f"import {mods[3]}"]
    f = c.name("useimp")
    lines += [f"def {f}():"] + ind([f"import {mods[2]}", f"import {r.choice(['textwrap', 'shlex', mods[0]])} as alias_mod", f"return {mods[2]}.__name__, alias_mod.__name__"])
    lines += [f"print({f}(), {mods[0]}.__name__, {mods[1]}.__name__)"]
    if r.random() < 0.4:
        lines += ["print(math.floor(2.5))" if "math" in mods else "print(len(sys.argv) >= 0)" if "sys" in mods else f"print({mods[0]}.__name__)"]
    return lines


def i_overused_constant(c):
    r = c.r
    lit = r.choice(["'some/long/constant/path/value'", "'another fairly long string literal'", "(1, 2, 3, 4, 5, 6, 7, 8, 9, 10, 11)"])
    n = r.randint(3, 6)
    lines = []
    names = [c.name("p") for _ in range(n)]
    for nm in names:
        lines.append(f"{nm} = {lit}")
    f = c.name("usec")
    lines += [f"def {f}(a={lit}):"] + ind([f"return a == {lit}, [{lit}][0]"])
    lines += [f"print({', '.join(names)}, {f}())"]
    if lit.startswith("'") and r.random() < 0.5:  # the literal as a value in the patterns of a match statement: a name there would be a capture
        m = c.name("kind")
        lines += [f"def {m}(v):"] + ind(["match v:"] + ind([f"case {lit}:", "    return 1", f"case [{lit}, other]:", "    return 2", f"case {{'k': {lit}}}:", "    return 3",
                                                         f"case ({lit} | 'short') as both:", "    return both", "case _:", "    return 0"]))
        lines += [f"print([{m}(v) for v in ({lit}, [{lit}, 1], ['x', 1], {{'k': {lit}}}, {{'k': 2}}, 'short', 5)])"]
    return lines


def i_assign_return(c):
    r = c.r
    f, x = c.name("mk"), c.name("x")
    e = r.choice(["a + 1", c.t(), "[a, a]", "a if a else 0"])
    body = [f"{x} = {e}", f"return {x}"]
    if r.random() < 0.3:
        body = [f"{x}: int = {e}", f"return {x}"]
    if r.random() < 0.2:
        body = ["try:"] + ind([f"{x} = 10 // a"]) + ["except ZeroDivisionError:"] + ind([f"{x} = -1"]) + [f"return {x}"]
    return [f"def {f}(a):"] + ind(body) + [f"print({f}(0), {f}(2))"]


def i_context_manager(c):
    r = c.r
    f = c.name("fh")
    return ["import io", f"{f} = io.StringIO('line1\\nline2')", f"data = {f}.read()", f"{f}.close()", "print(data.split())"] if r.random() < 0.5 else \
        ["import tempfile, os", "tmpdir = tempfile.mkdtemp()", "path = os.path.join(tmpdir, 'a.txt')", f"{f} = open(path, 'w')", f"{f}.write('hello')", f"{f}.close()",
         f"{f}2 = open(path)", f"content = {f}2.read()", f"{f}2.close()", "print(content)", "os.remove(path)", "os.rmdir(tmpdir)"]


def i_raise_from(c):
    r = c.r
    f = c.name("conv")
    handler = r.choice(["except ValueError:", "except ValueError as err:", "except (ValueError, TypeError) as error:"])
    new = r.choice(["raise RuntimeError('bad')", "raise RuntimeError('bad') from None", "raise", "raise KeyError(v)"])
    return [f"def {f}(v):"] + ind(["try:"] + ind(["return int(v)"]) + [handler] + ind([new])) + \
        [f"for w in ('1', 'x'):"] + ind(["try:"] + ind([f"print({f}(w))"]) + ["except Exception as exc:"] + ind(["print(type(exc).__name__, str(exc))"]))


def i_zip_enumerate(c):
    r = c.r
    a, b = c.name("xs"), c.name("ys")
    lines = [f"{a} = {c.int_list(r.randint(0, 4))}", f"{b} = {c.int_list(r.randint(0, 4))}"]
    form = r.randrange(5)
    if form == 0:
        lines += [f"for _, v in enumerate({a}):"] + ind(["print(v)"])
    elif form == 1:
        lines += [f"for i, _ in enumerate({a}):"] + ind(["print(i)"])
    elif form == 2:
        lines += [f"for _, v in zip({a}, {b}):"] + ind(["print(v)"])  # zip truncates to the shorter one
    elif form == 3:
        lines += [f"for u, _ in zip({a}, {b}):"] + ind(["print(u)"])
    else:
        lines += [f"for i, v in enumerate({a}, 1):"] + ind(["print(i, v)"])
    return lines


def i_defaultdict(c):
    r = c.r
    d, k = c.name("groups"), c.name("k")
    kind = r.choice(["[]", "[]", "set()"])
    add = "append" if kind == "[]" else "add"
    lines = [f"{d} = {{}}", f"for {k} in [1, 2, 1, 3, 2, 1]:"]
    lines += ind([f"if {k} not in {d}:"] + ind([f"{d}[{k}] = {kind}"]) + [f"{d}[{k}].{add}({k} * 2)"])
    lines += [r.choice([f"print(sorted({d}.items(), key=str))", f"print({d})", f"print(4 in {d}, len({d}))", f"print({d}.get(9))"])]
    return lines


def i_move_before_loop(c):
    r = c.r
    out, k, v, i = c.name("acc"), c.name("k"), c.name("v"), c.name("i")
    src = r.choice(["range(3)", "range(0)", "[]", "[5, 6]"])
    inv = r.choice(["10", "len('abc')", f"{c.t()}", f"[1, 2]", f"{i} * 0 + 7", f"{out}"])
    bound_before = r.random() < 0.4
    lines = [f"{out} = []", f"{k} = -1" if bound_before else "pass", f"for {i} in {src}:"]
    lines += ind([f"{k} = {inv}", f"{v} = {k} if isinstance({k}, int) else len({k})", f"{out}.append({v} + {i})"] + ([f"{k} = 0"] if r.random() < 0.2 else []))
    lines += [f"print({out})", f"print({out}[-1:] )"]
    if bound_before:  # the loop may run zero times: then the name keeps the value it had before the loop
        lines += [f"print('after the loop', {k})"]
    return lines


def i_nested_loops(c):
    r = c.r
    out, a, b = c.name("out"), c.name("a"), c.name("b")
    lines = [f"{out} = []", f"for {a} in range(3):"]
    inner = [f"for {b} in range({a}):"] + ind(([f"if {b} % 2 == 0:"] + ind([f"{out}.append(({a}, {b}))"])) if r.random() < 0.5 else [f"{out}.append({a} * {b})"])
    lines += ind(inner)
    lines += [f"print({out})"]
    if r.random() < 0.4:
        o2 = c.name("flat")
        lines += [f"{o2} = []", f"for row in [[1, 2], [3], []]:"] + ind([f"{o2}.extend([q * 2 for q in row])"]) + [f"print({o2})"]
    return lines


def i_logging(c):
    r = c.r
    a = c.name("val")
    arg = r.choice([f"f'value {{{a}}} done'", f"'value %s' % {a}", f"'value {{}}'.format({a})", f"f'{{{a}!r:>5}} and 100%'", f"f'{{{c.t()}}}'", f"'plain'", f"f'{{{a}}}%d' % 3"])
    lvl = r.choice(["info", "warning", "error", "debug"])
    return ["import logging, sys", "logging.basicConfig(stream=sys.stdout, level=logging.INFO, format='%(levelname)s %(message)s', force=True)", f"{a} = {r.choice(['3', chr(39) + 'x' + chr(39), '[1]'])}",
            f"logging.{lvl}({arg})", "logging.shutdown()"]


def i_numpy(c):
    r = c.r
    a, b, res = c.name("ma"), c.name("mb"), c.name("res")
    lines = ["import numpy as np", f"{a} = np.array([[1, 2], [3, 4], [5, 6]])", f"{b} = np.array([[1, 0, 2], [0, 1, 3]])"]
    e = r.choice([f"np.array([[np.dot({a}[i, :], {b}[:, j]) for j in range({b}.shape[1])] for i in range({a}.shape[0])])",
                  f"np.array([np.dot({a}[i, :], {b}[:, 0]) for i in range({a}.shape[0])])", f"np.matmul({a}.T, {b}.T).T", f"{a}.T.T", f"np.matmul({a}, {b})",
                  f"[{a}[i] for i in range(len({a}))]", f"[{a}[i, :] for i in range({a}.shape[0])]", f"sum({a}[i, 0] * {b}[0, i] for i in range(2))"])
    lines += [f"{res} = {e}", f"print(np.array({res}).tolist())"]
    return lines


def i_negated_compare(c):
    r = c.r
    a = c.name("a")
    op = r.choice(["<", "<=", ">", ">=", "==", "!=", "in", "is"])
    rhs = r.choice(["2", "(1, 2)", "None"]) if op in ("in", "is") else "2"
    if op == "in":
        rhs = "(1, 2)"
    if op == "is":
        rhs = "None"
    return [f"for {a} in (1, 2, 3):"] + ind([f"print(not {a} {op} {rhs}, not ({a} {op} {rhs}))"])


def i_lambda_redundant(c):
    r = c.r
    f = c.name("fn")
    e = r.choice(["lambda: []", "lambda: {}", "lambda: 0", "lambda x: abs(x)", "lambda *a: max(*a)", "lambda x, y: divmod(x, y)", "lambda x: t(x)", "lambda: list()", "lambda x=2: abs(x)"])
    call = {"lambda: []": "()", "lambda: {}": "()", "lambda: 0": "()", "lambda: list()": "()", "lambda x=2: abs(x)": "()"}.get(e, "(-3)" if "x:" in e and "y" not in e else "(7, 2)")
    lines = [f"{f} = {e}", f"print({f}{call})"]
    if r.random() < 0.3 and "abs" in e:
        lines += ["abs_backup = abs", f"print({f}{call})"]
    return lines


def i_commented_code(c):
    r = c.r
    a = c.name("a")
    return [f"{a} = 1", r.choice(["# x = 2", "# print('old')", "# if a:\n#     pass", "# just a remark", "# TODO: fix", "# noqa", "# a + b", "# return 1", "#!/usr/bin/env python", "# type: ignore"]).replace("\n", "\n"),
            f"print({a})  # {r.choice(['trailing', 'x = 1', 'print(2)'])}"]


def i_while_counter(c):
    r = c.r
    n, acc = c.name("n"), c.name("acc")
    lines = [f"{n} = {r.randint(0, 4)}", f"{acc} = []", f"while {r.choice([n + ' > 0', n, 'True', n + ' != 0'])}:"]
    body = [f"{acc}.append({n})", f"{n} -= 1"]
    if "True" in lines[-1]:
        body = [f"if {n} <= 0:"] + ind(["break"]) + body
    if r.random() < 0.3:
        body += [f"if {n} == 2:"] + ind(["continue"])
    lines += ind(body)
    if r.random() < 0.3:
        lines += ["else:"] + ind([f"print('exhausted', {n})"])
    lines += [f"print({acc}, {n})"]
    return lines


def i_invalid_escape(c):
    """Escapes that are not valid (the rule makes the literal raw) next to valid ones in every spelling of the language reference: then the raw
    literal is another value."""
    r = c.r
    bs = chr(92)
    valid = [bs + x for x in ("x41", "101", "0", "7", "12", "N{DIGIT ONE}", "u0041", "U00000041", "\n", "t", "'", bs, "a", "v")]
    bad = bs + r.choice(["d", "w+", "q", ".", "(", " "])
    form = r.randrange(7)
    if form == 0:
        return ["import re\nprint(re.findall('\\d+', 'a12b3'))"]
    if form == 1:
        return ["print('a\\qb'.__len__())", "print(len('\\d\\w'), '\\n'.__len__())"]
    rare = [bs + x for x in ("x41", "101", "0", "7", "12", "\n")]  # spellings that the rule's list of valid sequences does not contain literally
    parts = [bad, r.choice(rare if r.random() < 0.7 else valid)] + [r.choice([bad, "z"] + valid) for _ in range(r.randint(0, 2))]
    r.shuffle(parts)
    body = "".join(parts)
    q = '"' if "'" in body else r.choice(["'", '"'])
    unicode_only = any(x in body for x in ("N{", bs + "u", bs + "U"))
    prefix = r.choice(["", "f"]) if unicode_only else r.choice(["", "", "", "b", "f", "u"])
    lit = f"{prefix}{q}{body}{q}"
    if form == 2:
        return [f"print(ascii({lit}), len({lit}))"]
    if form == 3:
        return [f"esc{c.n} = {lit}", f"print(ascii(esc{c.n}))"]
    if form == 4:  # implicitly concatenated parts, one of them with a valid escape
        return [f"print(ascii('{bad}' {q}{r.choice([v for v in valid if v != bs + chr(39)])}{q}))"]
    if form == 5:
        return [f"print(ascii(({lit}, '{bad}')))"]
    return [f"print(ascii({q * 3}{bad}{q * 3}), ascii({lit}))"]


def i_string_ops(c):
    r = c.r
    s = c.name("s")
    return [f"{s} = {r.choice([chr(39) + 'hello world' + chr(39), chr(39) + chr(39), chr(39) + 'a,b,c' + chr(39)])}",
            f"print({r.choice([s + '.upper()', s + '.split(' + chr(39) + ',' + chr(39) + ')', 'len(' + s + ')', chr(39) + '-' + chr(39) + '.join(' + s + '.split())', s + '[::-1]', 'f' + chr(39) + '{' + s + '!r}' + chr(39), s + ' * 2', 'sorted(' + s + ')[:3]'])})"]


def i_const_iter_loop(c):
    """A loop over a constant iterable that may be empty (also lazily: zip / reversed / map / filter objects are truthy even when empty) with a
    return / break in its body, and live code after it: is_blocking must not call the loop 'always entered'."""
    r = c.r
    f, a = c.name("scan"), c.name("a")
    it = r.choice(["[]", "()", "''", "range(0)", "zip([], [])", "reversed(())", "map(str, [])", "filter(None, [])", "enumerate([])", "iter([])", "{}.items()", "sorted([])", "set()",
                   "[1]", "zip([1], [2])", "reversed((1, 2))", "map(str, [3])", "filter(None, [0, 4])", "range(2)", "'ab'", "enumerate('x')", "filter(None, [0])", "range(3, 1)"])
    body = r.choice([[f"return ('first', {a})"], [f"print('in', {a})", "break"], [f"print('in', {a})", f"return {a}"], [f"if {a}:"] + ind([f"return {a}"]) + ["continue"]])
    lines = [f"def {f}():"] + ind([f"for {a} in {it}:"] + ind(body))
    if r.random() < 0.3:
        lines += ind(["else:"] + ind(["print('exhausted')"]))
    lines += ind([r.choice(["return 'nothing'", "print('after')\n    return 'tail'", f"{a} = 'none'\n    return {a}"])])
    return lines + ["", f"print({f}())"]


def i_loop_carried(c):
    """A variable assigned at the end of a loop body and read at the top of the next iteration (module level and inside a function, while and for)."""
    r = c.r
    prev, i, out = c.name("prev"), c.name("i"), c.name("out")
    kind = r.choice(["while", "while", "for", "while_func"])
    upd = r.choice([f"{prev} = {i} * 2", f"{prev} = {prev} + {i}", f"{prev} = {i}"])
    if kind == "for":
        lines = [f"{prev} = 0", f"{out} = []", f"for {i} in range({r.randint(2, 5)}):"] + ind([f"{out}.append({prev})", upd]) + [f"print({out})"]
    else:
        lines = [f"{prev} = 0", f"{i} = 0", f"{out} = []", f"while {i} < {r.randint(2, 5)}:"] + ind([f"{out}.append({prev})", f"{i} += 1", upd]) + [f"print({out})"]
        if r.random() < 0.4:
            lines[-1] = f"print({out}, {i})"
    if kind == "while_func":
        fn = c.name("carry")
        lines = [f"def {fn}():"] + ind(lines[:-1] + [f"return {out}"]) + ["", f"print({fn}())"]
    return lines


def i_constrained_range(c):
    """range(...) filtered by comparisons with constants, the variable on either side of the operator (simplify_constrained_range)."""
    r = c.r
    x = c.name("x")
    lo, hi = r.randint(-2, 3), r.randint(4, 10)
    rng = r.choice([f"range({hi})", f"range({lo}, {hi})", f"range({lo}, {hi}, 1)", f"range({lo}, {hi}, 2)"])
    def cmp_():
        k, op = r.randint(-1, 9), r.choice(["<", "<=", ">", ">=", "==", "!="])
        return f"{x} {op} {k}" if r.random() < 0.5 else f"{k} {op} {x}"
    cond = cmp_() if r.random() < 0.6 else f"{cmp_()} {r.choice(['and', 'or'])} {cmp_()}"
    form = r.choice(["[{x} for {x} in {rng} if {cond}]", "list({x} for {x} in {rng} if {cond})", "sum({x} for {x} in {rng} if {cond})", "[{x} * 2 for {x} in {rng} if {cond}]",
                     "{{{x} for {x} in {rng} if {cond}}} == set()", "[{x} for {x} in {rng} if {cond} if {x} != 1]"])
    return [f"print({form.format(x=x, rng=rng, cond=cond)})"]


def i_effectful_helper(c):
    """Bare calls of functions whose effects sit in a statement that always returns or raises (if/else, try/finally, with, a final raise)."""
    r = c.r
    f, x = c.name("helper"), c.name("x")
    body = r.choice([
        [f"if {x}:", "    print('yes')", "    return 1", "else:", "    print('no')", "    return 0"],
        ["try:", f"    print('try', {x})", "    return 1", "finally:", "    print('finally')"],
        [f"print('before', {x})", "raise ValueError('boom')"],
        [f"if {x}:", f"    return {c.t()}", f"return {c.t()}"],
        [f"for item in [{x}]:", "    print('item', item)", "    return item", "return None"],
        [f"if {x} > 0:", "    return 1", "return 0"],
    ])
    lines = [f"def {f}({x}):"] + ind(body) + ["", ""]
    call = lambda a: f"{f}({a})"  # noqa: E731
    if "raise ValueError" in body[-1]:
        lines += ["try:"] + ind([call(1)]) + ["except ValueError:"] + ind(["print('caught')"])
    else:
        lines += [call(1), call(0), f"print({call(2)})"]
    return lines


def i_multiline_literal_block(c):
    """A multi-line literal whose lines are indented less than the statement it is in, followed by statements of the same block: laying the
    statement out again must neither change the literal nor move what follows it to another block."""
    r = c.r
    f, x, t_ = c.name("lit"), c.name("x"), c.name("text")
    q = r.choice(["'''", '"""'])
    body = r.choice(["a\nb\n", "first   \n   \n  second  ", "\n\n\nafter", "col0\n        deep\n  two", "tab\there\n\tindented with a tab\t\n", "one\ttab"])
    prefix = r.choice(["", "", "r", "f"])
    filler = "some_function_name(argument_number_one, argument_number_two, argument_number_three, argument_number_four)" if r.random() < 0.5 else "len"
    lit = f"{prefix}{q}{body}{q}"
    assign = f"{t_} = {lit}" if filler == "len" else f"{t_} = [{lit}, str({filler!r})]"
    lines = [f"def {f}({x}):"] + ind([f"if {x}:"] + ind([assign, f"print(repr({t_}))"]) + [r.choice(["else:\n        print('other')", "print('after if')"]), f"return {x}"])
    return lines + ["", "", f"print({f}(1))", f"print({f}(0))"]


def i_if_control_flow(c):
    """Both branches of an if are the same statements up to the values they use (simplify_if_control_flow), start or end with the same statement
    (breakout_common_code_in_ifs), with pure and effectful tests and values."""
    r = c.r
    x, y, z = c.name("x"), c.name("y"), c.name("z")
    test = r.choice([f"{z} > 1", f"{z} % 2", c.t(), f"{z} == {x}", f"len(str({z})) > 1"])
    lines = [f"{x} = {r.randint(2, 5)}", f"{y} = {r.randint(6, 9)}", f"{z} = {r.randint(0, 3)}"]
    kind = r.choice(["same_shape", "same_shape", "common_head", "common_tail", "common_both", "head_effect", "walrus_head", "walrus_head"])
    if kind == "walrus_head":  # the test binds a name (walrus, possibly nested) that the common first statement reads
        n = c.name("n")
        wal = r.choice([f"({n} := len(str({z} * 11))) > 1", f"({n} := {z} + 1)", f"len([{n} := {x}]) and {n} > 3", f"not ({n} := {z} % 2)"])
        lines = [f"{x} = {r.randint(2, 5)}", f"{y} = {r.randint(6, 9)}", f"{z} = {r.randint(0, 3)}", f"{n} = -1"][: r.choice([3, 4])]
        m = c.name("m")
        head = r.choice([f"print('n is', {n})", f"{m} = {n} * 2", f"{m} = [{n}, {x}]", f"{m} = {n}"])  # with and without a call
        show = [] if head.startswith("print") else [f"print({m})"]
        lines += [f"if {wal}:"] + ind([head, f"print({x})"]) + ["else:"] + ind([head, f"print({y})"]) + show
        return lines
    if kind == "same_shape":
        lines += [f"if {test}:"] + ind([f"print({x})", f"print({y} - {x} ** 2)", f"print(str({x}) + str({y} * {y}))"]) + ["else:"] + ind([f"print({y})", f"print({x} - {y} ** 2)", f"print(str({y}) + str({x} * {x}))"])
    elif kind == "common_head":
        lines += [f"if {test}:"] + ind(["print(100)", f"print({x})"]) + ["else:"] + ind(["print(100)", f"print({y})"])
    elif kind == "common_tail":
        lines += [f"if {test}:"] + ind([f"print({x})", "print(100)"]) + ["else:"] + ind([f"print({y})", "print(100)"])
    elif kind == "common_both":
        lines += [f"if {test}:"] + ind([f"{z} += 1", f"print({x})", f"print({z})"]) + [f"elif {y} > {x}:"] + ind([f"{z} += 1", f"print({y})", f"print({z})"]) + ["else:"] + ind([f"{z} += 1", "print('else')", f"print({z})"])
    else:
        lines += [f"if {test}:"] + ind([f"{z} = {c.t()}", f"print({x})"]) + ["else:"] + ind([f"{z} = {c.t()}", f"print({y})"]) + [f"print({z})"]
    return lines


def i_early_continue_forms(c):
    """Loop bodies that are one big if, an if/else with a short and a long branch, nested: early_continue and the else / swap rules."""
    r = c.r
    i, acc = c.name("i"), c.name("acc")
    cnd = c.cond(i)
    long_ = [f"{acc}.append({i})", f"{acc}.append({i} * 2)", f"print({i} ** 2)", f"{acc}.append(len({acc}))"]
    kind = r.choice(["single_if", "if_else_short_long", "if_else_long_short", "nested"])
    lines = [f"{acc} = []", f"for {i} in range({r.randint(3, 6)}):"]
    if kind == "single_if":
        lines += ind([f"if {cnd}:"] + ind(long_))
    elif kind == "if_else_short_long":
        lines += ind([f"if {cnd}:"] + ind([f"{acc}.append(-1)"]) + ["else:"] + ind(long_))
    elif kind == "if_else_long_short":
        lines += ind([f"if {cnd}:"] + ind(long_) + ["else:"] + ind([f"{acc}.append(-1)"]))
    else:
        lines += ind([f"if {cnd}:"] + ind([f"if {i} % 2:"] + ind(long_)) + [f"{acc}.append('tail')"])
    if r.random() < 0.3:
        lines += ["else:"] + ind([f"{acc}.append('done')"])
    return lines + [f"print({acc})"]


def i_comprehension_chains(c):
    """Comprehensions over comprehensions and sums of named comprehensions (merge_chained_comps, merge_nested_comprehensions, inline_math_comprehensions)."""
    r = c.r
    w, x, y = c.name("w"), c.name("x"), c.name("y")
    src = r.choice(["(3, 4, 5)", "range(6)", c.int_list(4), "[t(1), 2]" if r.random() < 0.2 else "range(2, 7)"])
    kind = r.choice(["chained_same", "chained_mixed", "nested_filter", "named_sum", "named_sum", "named_sum", "named_sum_used_twice", "chained_transform"])
    if kind == "chained_same":
        o, cl = r.choice([("(", ")"), ("[", "]"), ("{", "}")])
        return [f"{x} = {o}{y} for {y} in {o}{y} for {y} in {src}{cl}{cl}", f"print(sorted({x}))"]
    if kind == "chained_mixed":
        return [f"{x} = [{y} for {y} in ({y} for {y} in {src})]", f"{w} = {{{y} for {y} in [{y} * 2 for {y} in {src}]}}", f"print({x}, sorted({w}))"]
    if kind == "nested_filter":
        return [f"{x} = [{y} for {y} in ({y} for {y} in {src} if {y} % 2) if {y} > 2]", f"print({x})"]
    if kind == "chained_transform":
        return [f"{x} = [{y} + 1 for {y} in [{y} * 2 for {y} in {src}]]", f"print({x})"]
    if kind == "named_sum":
        between = r.choice([[], [], [f"{w}.append(10)"], [f"{w}.pop()"], [f"{w}[0] = 7"], [f"print(len({w}))"], [f"{w} = {w} + [1]"], [f"{w}.sort(reverse=True)"], [f"del {w}[0]"]])
        if r.random() < 0.5:
            return [f"{w} = [{y} ** 2 for {y} in range({r.randint(2, 6)})]"] + between + [f"{x} = sum({w})", f"print({x})"]
        # the comprehension reads other variables, which change (rebound or mutated in place) between its definition and its use
        data, scale = c.name("data"), c.name("scale")
        between = r.choice([[f"{data}.append(10)"], [f"{data}.pop()"], [f"{data}[0] = 50"], [f"{scale} = 5"], [f"{data} = [7]"], [f"del {data}[0]"], [f"{data} += [4]"], [f"print(len({data}))"],
                            [f"{data}.clear()"], []])
        return [f"{data} = [3, 1, 4]", f"{scale} = 2", f"{w} = [{y} * {scale} for {y} in {data}]"] + between + [r.choice([f"{x} = sum({w})", f"{x} = sum({w}) + len({data})"]), f"print({x})"]
    return [f"{w} = [{y} ** 2 for {y} in {src}]", f"{x} = sum({w})", f"print({x}, len({w}))", f"{w}.append(1)", f"print(sum({w}))"]


def i_shared_state(c):
    """Variables shared between scopes: global / nonlocal writes, names read by a function that was defined before a re-assignment."""
    r = c.r
    v, f, g = c.name(r.choice(["total", "count", "state"])), c.name("bump"), c.name("peek")
    k = r.random()
    if k < 0.3:
        body = r.choice([[f"{v} = {v} + 1", f"return {v}"], [f"{v} += 1", f"return {v}"], [f"{v} = {v} * 2 + 1", f"return {v}"], [f"{v} = [{v}]", f"return {v}"]])
        return [f"{v} = {r.randint(0, 3)}", "", "", f"def {f}():"] + ind([f"global {v}"] + body) + ["", "", f"print({f}(), {f}(), {v})"]
    if k < 0.45:
        return [f"def {f}():"] + ind([f"global {v}", f"{v} = {r.choice(['1', c.t(), '[1]'])}"]) + ["", "", f"{f}()", f"print({v})"]
    if k < 0.65:
        mk = c.name("make")
        body = r.choice([[f"{v} = {v} + 1", f"return {v}"], [f"{v} += 2", f"return {v}"]])
        return [f"def {mk}():"] + ind([f"{v} = 0", f"def {f}():"] + ind([f"nonlocal {v}"] + body) + [f"return {f}"]) + ["", "", f"{g} = {mk}()", f"print({g}(), {g}(), {g}())"]
    if k < 0.85:
        reader = r.choice([[f"def {g}():"] + ind([f"return {v}"]), [f"{g} = lambda: {v}"], [f"def {g}(extra=0):"] + ind([f"return {v} + extra"])])
        return [f"{v} = 1"] + reader + [f"print({g}())", f"{v} = {r.choice(['2', c.t(), v + ' + 5'])}", f"print({g}())"]
    out = c.name("out")
    return [f"def {f}():"] + ind([f"{v} = 1", f"def {g}():"] + ind([f"return {v}"]) + [f"{out} = [{g}()]", f"{v} = 2", f"{out}.append({g}())", f"return {out}"]) + ["", "", f"print({f}())"]


i_shared_state.module_only = True


def i_kept_for_effect(c):
    """Code that looks unused or unreachable and is there for what it does: registering decorators, the dead yield that makes a
    generator, next() to skip an element, expression statements probing for an exception."""
    r = c.r
    k = r.random()
    a, f = c.name("a"), c.name("fn")
    if k < 0.25:
        reg, deco = c.name("registry"), c.name("register")
        second = r.choice([[], ["", "", f"@{deco}", f"def {f}_b():"] + ind(["return 'b'"])])
        return [f"{reg} = []", "", "", f"def {deco}(func):"] + ind([f"{reg}.append(func())", "return func"]) + ["", "", f"@{deco}", f"def {f}():"] + ind(["return 'a'"]) + second + \
            ["", "", f"print(sorted({reg}))"]
    if k < 0.5:
        body = r.choice([["return", "yield"], ["if False:", "    yield", "return"], [f"print('gen', {a})", "return", "yield 1"], ["if 0:", "    yield 5"], ["return None", "yield from ()"]])
        return [f"def {f}({a}):"] + ind(body) + ["", "", f"print(list({f}(3)))"]
    if k < 0.75:
        it = c.name("it")
        skip = r.choice([f"next({it})", f"next({it}, None)", f"{it}.__next__()"])
        return [f"{it} = iter(['header', 'x', 'y'])", skip, f"print(list({it}))"]
    probe = r.choice([("d['missing']", "KeyError", "d = {'k': 1}"), ("1 / z", "ZeroDivisionError", "z = 0"), ("o.missing", "AttributeError", "o = object()"), ("int(s)", "ValueError", "s = 'x'"),
                      ("xs[5]", "IndexError", "xs = [1]"), ("d['k']", "KeyError", "d = {'k': 1}")])
    return [probe[2], "try:"] + ind([probe[0], "print('no error')"]) + [f"except {probe[1]}:"] + ind(["print('caught')"])


def i_descriptors(c):
    """Methods that do not use self but are called with it all the same (properties), dict literals with repeated keys."""
    r = c.r
    if r.random() < 0.35:
        d = c.name("d")
        k1, k2 = r.sample(["'a'", "'b'", "1", "2"], 2)
        items = [f"{k1}: {c.t()}", f"{k2}: {r.choice(['5', c.t()])}", f"{k1}: {r.choice(['6', c.t()])}"]
        return [f"{d} = {{{', '.join(items)}}}", f"print(sorted({d}.items(), key=str))"]
    if r.random() < 0.3:  # the first argument is used only through super() without arguments
        B, K, m = c.name("Base").capitalize(), c.name("Child").capitalize(), c.name("describe")
        form = r.randrange(4)
        child = {0: [f"def {m}(self):"] + ind([f"return 'child+' + super().{m}()"]),
                 1: ["@classmethod", f"def {m}(cls):"] + ind([f"return 'child+' + super().{m}()"]),
                 2: [f"def {m}(self):"] + ind([f"return [super().{m}() for _ in range(1)] and 'child+' + super({K}, self).{m}()"]),
                 3: ["def __repr__(self):"] + ind(["return 'child:' + super().__repr__()[:1]"]) + ["", f"def {m}(self):"] + ind(["return repr(self)"])}[form]
        base = (["@classmethod"] if form == 1 else []) + [f"def {m}({'cls' if form == 1 else 'self'}):"] + ind(["return 'base'"])
        return [f"class {B}:"] + ind(base) + ["", "", f"class {K}({B}):"] + ind(child) + ["", "", f"print({K}().{m}())"]
    K, p = c.name("Thing").capitalize(), c.name("prop")
    deco = r.choice(["@property", "@property", "@functools.cached_property"])
    body = [deco, f"def {p}(self):"] + ind([f"return {r.randint(1, 9)}"])
    if deco == "@property" and r.random() < 0.5:
        body += ["", f"@{p}.setter", f"def {p}(self, value):"] + ind(["print('set', value)"])
    body += ["", f"def plain(self):"] + ind(["return 7"])
    use = [f"obj = {K}()", f"print(obj.{p}, obj.plain())"]
    if any(".setter" in l for l in body):
        use.insert(1, f"obj.{p} = 3")
    return ["import functools", "", "", f"class {K}:"] + ind(body) + ["", ""] + use


def i_repeated_calls_in_conditions(c):
    """The same call written twice in one condition: each occurrence is evaluated (and may give another value)."""
    r = c.r
    it, nx = c.name("it"), c.name("nxt")
    k = r.random()
    if k < 0.35:
        e = r.choice([f"{nx}() == {nx}()", f"{nx}() != {nx}()", f"{nx}() < 3 and {nx}() < 5", f"{nx}() or {nx}()", f"{nx}() and not {nx}()"])
        return [f"{it} = iter(range(10))", "", "", f"def {nx}():"] + ind([f"return next({it})"]) + ["", "", f"print({e})", f"print({nx}())"]
    tk = c.t()
    e = r.choice([f"{tk} == {tk}", f"{tk} > 0 and {tk} > -1", f"{tk} > 5 or {tk} > 7", f"{tk} or {tk}", f"{tk} and {tk}", f"{tk} > 3 or not {tk} > 3", f"{tk} == 1 and {tk} != 0"])
    return r.choice([[f"print({e})"], [f"if {e}:"] + ind(["print('yes')"]) + ["else:"] + ind(["print('no')"])])


def i_many_masked_literals(c):
    """Eleven or more literals that the layout stages have to set aside (tabs, trailing blanks, several lines) in one module: whatever names or
    numbers the tool gives them while it lays the text out, one must not be mistaken for another."""
    r = c.r
    n = r.choice([11, 12, 14, 21, 101])
    lines = []
    for i in range(n):
        k = (i + r.randint(0, 2)) % 3
        if k == 0:
            lines.append(f"m{i} = \'\'\'first\tcolumn   \n\n\n\n  second {i}\t\nlast\'\'\'")
        elif k == 1:
            lines.append(f'm{i} = "only\ttabs\t{i}"')
        else:
            lines.append(f'm{i} = """a\tb\nc   """')
    lines.append("print(" + ", ".join(f"ascii(m{i})" for i in range(0, n, max(1, n // 12))) + ")")
    return lines


i_many_masked_literals.module_only = True


def i_negation_needs_parentheses(c):
    """Conditions that the rules negate or paste into another expression and whose top-level operator binds less tightly than `not`
    (conditional expressions, or / and, walrus, chained comparisons): if/else returning booleans, filterfalse lambdas, swapped branches,
    early continue."""
    r = c.r
    a, b, f = c.name("a"), c.name("b"), c.name("neg")
    w = f"w{c.n}"
    tests = [f"{a} if {b} else {a} - 1", f"{a} > 1 or {a} < -1", f"{a} > 0 and {b}", f"({b} or {a}) and {a} != 2", f"{a} if {a} > 1 else {b} if {b} else 0", f"not {a} or {b}", f"{a} in (1, 2) or {b} is None",
             f"0 < {a} < 3 or {b}", f"({w} := {a}) > 1 or {b}", f"{a} == {b} if {a} else not {b}", f"{a} - 1 or {b} - 1", f"[{a}] * {b} or {a} > 2", f"{a} > {b} if {b} else {a} < {b}"]
    t = r.choice(tests)
    vals = "[(x, y) for x in (-2, 0, 1, 2, 3) for y in (0, 1, 2)]"
    form = r.randrange(6)
    if form == 0:
        body = [f"if {t}:", "    return False", "else:", "    return True"]
    elif form == 1:
        body = [f"if {t}:", "    return False", "return True"]
    elif form == 2:
        body = [f"if {t}:", "    pass", "else:", f"    print('else branch', {a}, {b})", "    return 1", "return 2"]
    elif form == 3:
        body = ["out = []", "for k in range(2):", f"    if {t}:", f"        out.append(({a}, k))", "        out.append(k)", "        print('long branch', k)", "return out"]
    elif form == 4:
        lam = t.replace(f"({w} := {a})", a)
        return [f"print(list(itertools.filterfalse(lambda {a}: {lam.replace(b, '1')}, range(-3, 5))))", f"print(list(filter(lambda {a}: {lam.replace(b, '0')}, range(-3, 5))))"]
    else:
        body = [f"if not ({t}):", "    return 'no'", "else:", "    return 'yes'"]
    return [f"def {f}({a}, {b}):"] + ind(body) + ["", f"print([{f}(x, y) for x, y in {vals}])"]


IDIOMS = {f.__name__[2:]: f for f in [
    i_list_append_loop, i_dict_loop, i_dict_literal_updates, i_collection_add_update, i_if_return_bool, i_redundant_else, i_swap_if_else, i_early_return, i_early_continue,
    i_filter_map_lambda, i_for_filter, i_comprehension_forms, i_literal_functions, i_unused_and_pointless, i_dead_code, i_singleton_compare, i_boolean_logic, i_staticmethod_class,
    i_unconventional_class, i_duplicate_functions, i_imports, i_overused_constant, i_assign_return, i_context_manager, i_raise_from, i_zip_enumerate, i_defaultdict,
    i_move_before_loop, i_nested_loops, i_logging, i_negated_compare, i_lambda_redundant, i_commented_code, i_while_counter, i_invalid_escape, i_string_ops, i_numpy,
    i_const_iter_loop, i_loop_carried, i_constrained_range, i_effectful_helper, i_multiline_literal_block,
    i_if_control_flow, i_early_continue_forms, i_comprehension_chains,
    i_shared_state, i_kept_for_effect, i_descriptors, i_repeated_calls_in_conditions, i_negation_needs_parentheses, i_many_masked_literals,
]}
NEEDS = {"numpy": "numpy"}


def program(seed_parts, n_idioms=None, only=None, style=None, wrap=None):
    """Returns (text, list of idiom names). `only`: restrict to one idiom family (G2 mode)."""
    r = random.Random(":".join(str(p) for p in seed_parts))
    c = Ctx(r, style or r.choice(["plain", "plain", "untidy"]))
    names = []
    blocks = []
    k = n_idioms or r.randint(2, 6)
    pool = [only] if only else [n for n in IDIOMS if n != "numpy" or r.random() < 0.3]
    for _ in range(k):
        name = r.choice(pool)
        names.append(name)
        try:
            lines = IDIOMS[name](c)
        except Exception:
            continue
        lines = [l for chunk in lines for l in chunk.split("\n")]
        mode = wrap or r.choice(["module", "module", "function", "method", "ifmain"])
        if any(l.startswith(("import ", "from ")) for l in lines) and mode in ("method",):
            mode = "function"
        if getattr(IDIOMS[name], "module_only", False) and not wrap:  # global statements need the module's own variables
            mode = {"function": "module", "method": "ifmain"}.get(mode, mode)
        if mode == "function":
            fn = c.name("run")
            lines = [f"def {fn}():"] + ind(lines) + ["", "", f"{fn}()"]
        elif mode == "method":
            K, fn = c.name("Runner").capitalize(), c.name("go")
            lines = [f"class {K}:"] + ind([f"def {fn}(self):"] + ind(lines)) + ["", "", f"{K}().{fn}()"]
        elif mode == "ifmain":
            lines = ["if __name__ == '__main__':"] + ind(lines)
        blocks.append("\n".join(lines))
    sep = r.choice(["\n\n\n", "\n\n", "\n"])
    text = "import itertools\n" + PRELUDE + sep + sep.join(blocks) + "\n"
    if r.random() < 0.15:
        text = text.rstrip("\n")
    return text, names
