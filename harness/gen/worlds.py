"""G6 - import worlds: generated package trees on disk plus client modules importing from them in every statement form.

A world is a dict {relative path: text}. Top-level names carry a per-world suffix so that a long-lived worker (whose
interpreter imports world packages when pyrefact calls importlib.util.find_spec on dotted names) never sees two
different modules under one name. What each module really exports is not modelled here: it is read back from Python
itself (c18_runner --dump) and the client generator draws the names it uses from that table.
"""
from __future__ import annotations

import random

# names that pyrefact's undefined-name analysis would answer with a guessed import
# (np / pd are left out: whether `import numpy as np` works depends on the environment of the child process, not on pyrefact)
GUESSABLE = ["json", "os", "Path", "Optional", "re", "List", "queue", "copy", "time", "string", "token", "code", "math", "sys", "random", "select",
             "ModuleType", "Any", "PurePath", "test", "types", "Iterable", "shlex", "warnings"]
ALL_FORMS = ["none", "none", "list", "tuple", "list_aug", "list_extend", "list_append", "list_plus", "annotated", "aug_in_if", "extend_in_try_else", "aug_in_with"]


def _defs(r, mod, funcs, classes, consts, extra=()):
    """Definitions with unique, self-describing values."""
    lines = []
    for f in funcs:
        lines += [f"def {f}(*args):", f"    return ('{mod}', '{f}') + args", ""]
    for c in classes:
        lines += [f"class {c}:", f"    tag = ('{mod}', '{c}')", ""]
    for k in consts:
        lines += [f"{k} = ('{mod}', '{k}')"]
    for k in extra:
        lines += [f"{k} = ('{mod}', '{k}', 'shadow')"]
    return lines


def _all_block(r, form, public, hidden):
    if form == "none" or not public:
        return []
    chosen = [n for n in public if r.random() < 0.7] or public[:1]
    if hidden and r.random() < 0.3:
        chosen.append(hidden[0])
    rest = [n for n in public if n not in chosen]
    q = lambda names: ", ".join(repr(n) for n in names)  # noqa: E731
    if form == "list":
        return [f"__all__ = [{q(chosen)}]"]
    if form == "tuple":
        return [f"__all__ = ({q(chosen)},)"]
    if form == "annotated":
        return [f"__all__: list = [{q(chosen)}]"]
    head, tail = chosen[: max(1, len(chosen) // 2)], chosen[max(1, len(chosen) // 2):]
    if form == "list_aug":
        return [f"__all__ = [{q(head)}]", f"__all__ += [{q(tail)}]"] if tail else [f"__all__ = [{q(head)}]"]
    if form == "list_extend":
        return [f"__all__ = [{q(head)}]", f"__all__.extend([{q(tail)}])"] if tail else [f"__all__ = [{q(head)}]"]
    if form == "list_append":
        return [f"__all__ = [{q(head)}]"] + [f"__all__.append({n!r})" for n in tail]
    if form == "list_plus":
        return [f"__all__ = [{q(head)}] + [{q(tail)}]"]
    # the list is extended inside a block that always runs
    if form == "aug_in_if":
        return [f"__all__ = [{q(head)}]"] + ([f"if len(__all__) >= 0:", f"    __all__ += [{q(tail)}]"] if tail else [])
    if form == "extend_in_try_else":
        return [f"__all__ = [{q(head)}]"] + (["try:", "    import sys as _sys", "except ImportError:", "    pass", "else:", f"    __all__.extend([{q(tail)}])"] if tail else [])
    if form == "aug_in_with":
        return [f"__all__ = [{q(head)}]"] + (["import contextlib as _contextlib", "with _contextlib.suppress(KeyError):", f"    __all__ += [{q(tail)}]"] if tail else [])
    return []


def make_world(parts):
    """-> (files, info) where info names the modules and the world suffix."""
    r = random.Random(":".join(str(p) for p in parts))
    s = "_w" + "".join(r.choice("abcdefghjkmnpqrstuvxyz") for _ in range(5))
    alpha, beta, gamma, pkg = f"alpha{s}", f"beta{s}", f"gamma{s}", f"pkg{s}"
    files = {}
    shadow = lambda k: r.sample(GUESSABLE, k)  # noqa: E731

    # alpha: a plain module; possibly defines names that look like guessable imports
    a_sh = shadow(r.choice([0, 1, 2, 3]))
    a_pub = ["fa", "Ca", "KA", "shared"] + a_sh
    body = _defs(r, alpha, ["fa", "shared", "_hidden_a"], ["Ca"], ["KA"], a_sh)
    if r.random() < 0.4:
        body = ["import os", "import json as _json", "from pathlib import Path as _P", ""] + body  # names a star import must not leak or must leak (os)
    body += _all_block(r, r.choice(ALL_FORMS), a_pub, ["_hidden_a"])
    files[f"{alpha}.py"] = "\n".join(body) + "\n"

    # beta: re-exports from alpha in every form, own definitions, sometimes rebinding
    b_sh = shadow(r.choice([0, 0, 1, 2]))
    forms = r.sample(["from_plain", "from_alias", "import_mod", "import_alias", "star", "from_two"], r.randint(1, 3))
    body = []
    b_pub = ["fb", "KB", "shared"] + b_sh
    for f in forms:
        if f == "from_plain":
            body.append(f"from {alpha} import fa")
            b_pub.append("fa")
        elif f == "from_alias":
            body.append(f"from {alpha} import Ca as Cb")
            b_pub.append("Cb")
        elif f == "import_mod":
            body.append(f"import {alpha}")
            b_pub.append(alpha)
        elif f == "import_alias":
            body.append(f"import {alpha} as al")
            b_pub.append("al")
        elif f == "star":
            body.append(f"from {alpha} import *")
        elif f == "from_two":
            body.append(f"from {alpha} import KA, fa as fa2")
            b_pub += ["KA", "fa2"]
    body.append("")
    body += _defs(r, beta, ["fb", "shared", "_hidden_b"], [], ["KB"], b_sh)
    if "fa" in b_pub and r.random() < 0.25:
        body += ["_orig_fa = fa", "def fa(*args):", f"    return ('{beta}', 'fa-rebound') + args", ""]
    body += _all_block(r, r.choice(ALL_FORMS), sorted(set(b_pub)), ["_hidden_b"])
    files[f"{beta}.py"] = "\n".join(body) + "\n"

    # pkg/sub: definitions + chain to beta
    body = [r.choice([f"from {beta} import fb", f"from {beta} import fb as fbb", f"import {beta}", f"from {beta} import *"])]
    if r.random() < 0.5:  # a relative re-export inside a plain module of the package
        body.append(r.choice(["from .deep.leaf import leaf_fn", "from .deep.leaf import Leaf as SubLeaf", "from .deep import leaf", "from . import deep"]))
    body.append("")
    body += _defs(r, f"{pkg}.sub", ["thing", "other", "_hidden_s"], ["Cs"], ["KS"], shadow(r.choice([0, 0, 1])))
    body += _all_block(r, r.choice(ALL_FORMS), ["thing", "other", "Cs", "KS"] + [n for n in ("leaf_fn", "SubLeaf") if any(n in l for l in body[:3])], ["_hidden_s"])
    files[f"{pkg}/sub.py"] = "\n".join(body) + "\n"

    # pkg/deep
    body = _defs(r, f"{pkg}.deep.leaf", ["leaf_fn", "thing"], ["Leaf"], ["KL"], shadow(r.choice([0, 0, 1])))
    body += _all_block(r, r.choice(ALL_FORMS), ["leaf_fn", "Leaf", "KL", "thing"], [])
    files[f"{pkg}/deep/leaf.py"] = "\n".join(body) + "\n"
    files[f"{pkg}/deep/__init__.py"] = r.choice(["", "from .leaf import leaf_fn\n", "from .leaf import *\n", f"from {pkg}.deep.leaf import Leaf as L\n", "from . import leaf\n"])

    # pkg/__init__: re-exports, relative and absolute
    cand = [f"from .sub import thing", f"from {pkg}.sub import other as alias_other", "from . import sub", "from .deep import leaf", "from .deep.leaf import *",
            f"from {alpha} import fa", f"from {beta} import fb as pkg_fb", f"import {alpha} as alpha_mod", f"from .sub import *", "from .sub import KS as KS2"]
    body = r.sample(cand, r.randint(1, 5)) + [""]
    body += _defs(r, pkg, ["pkg_fn"], [], ["KP"], shadow(r.choice([0, 0, 1])))
    body += _all_block(r, r.choice(ALL_FORMS), ["pkg_fn", "KP"] + (["thing"] if "from .sub import thing" in body else []), [])
    files[f"{pkg}/__init__.py"] = "\n".join(body) + "\n"

    # a module that is only importable after a sys.path manipulation
    files[f"extra{s}/{gamma}.py"] = "\n".join(_defs(r, gamma, ["fg"], [], ["KG"])) + "\n"
    info = {"suffix": s, "alpha": alpha, "beta": beta, "gamma": gamma, "pkg": pkg, "extra_dir": f"extra{s}",
            "modules": [alpha, beta, pkg, f"{pkg}.sub", f"{pkg}.deep", f"{pkg}.deep.leaf"]}
    return files, info


# ------------------------------------------------------------------------------------------------ clients
STDLIB_IMPORTS = [
    ("import os", ["os", "os.path", "os.sep"]),
    ("import os.path", ["os.path.join", "os"]),
    ("import os.path as osp", ["osp", "osp.join"]),
    ("from os import path", ["path", "path.join"]),
    ("from os import path as p, sep", ["p", "sep"]),
    ("from os.path import *", ["join", "basename", "splitext"]),
    ("import json", ["json", "json.dumps"]),
    ("from json import dumps, loads", ["dumps", "loads"]),
    ("import collections.abc", ["collections.abc.Mapping", "collections.OrderedDict"]),
    ("import xml.dom.minidom", ["xml.dom.minidom.Document", "xml.dom"]),
    ("from collections import *", ["OrderedDict", "deque"]),
    ("from typing import Optional, List", ["Optional", "List"]),
    ("from pathlib import Path, PurePath", ["Path", "PurePath"]),
    ("import sys, os, re", ["sys", "os", "re"]),
    ("import importlib.util", ["importlib.util.find_spec", "importlib"]),
    ("from math import *", ["pi", "floor", "sqrt"]),
    ("import re as regex", ["regex", "regex.compile"]),
    ("import string", ["string", "string.digits"]),
]


def make_client(parts, info, exports, kind="root"):
    """-> client text. `exports` = {module: {"names": [...], "star": [...]}} read back from Python.

    kind: root (a top-level script in the world root) | member (a module inside the package: relative imports too).
    Every used name goes through see(tag, obj) (a builtin injected by the runner): at module level, in a function that
    is called, and in a method.
    """
    r = random.Random(":".join(str(p) for p in parts))
    alpha, beta, pkg, gamma = info["alpha"], info["beta"], info["pkg"], info["gamma"]
    pub = lambda m: [n for n in exports.get(m, {}).get("names", []) if not n.startswith("__")]  # noqa: E731
    star = lambda m: list(exports.get(m, {}).get("star", []))  # noqa: E731
    stmts = []  # (import statement text, [usable expressions])

    def from_import(mod, written=None, level_mod=None):
        names = pub(mod)
        if not names:
            return
        k = r.randint(1, min(3, len(names)))
        chosen = r.sample(names, k)
        parts_, uses = [], []
        for n in chosen:
            if r.random() < 0.3:
                a = r.choice([n + "_x", "renamed_" + n, n.upper() if n.upper() != n else n + "2", n])
                parts_.append(f"{n} as {a}")
                uses.append(a)
            else:
                parts_.append(n)
                uses.append(n)
        text = f"from {written or mod} import " + ", ".join(parts_)
        if len(parts_) > 1 and r.random() < 0.2:
            text = f"from {written or mod} import (\n    " + ",\n    ".join(parts_) + ",\n)"
        stmts.append((text, uses))

    def star_import(mod, written=None):
        names = star(mod)
        if names:
            stmts.append((f"from {written or mod} import *", r.sample(names, min(len(names), r.randint(1, 4)))))

    def plain_import(mod):
        names = pub(mod)
        form = r.choice(["plain", "alias", "alias_self"])
        if form == "plain":
            stmts.append((f"import {mod}", [mod] + [f"{mod}.{n}" for n in r.sample(names, min(2, len(names)))]))
        elif form == "alias":
            a = r.choice(["m1", "mod_a", "xx"]) + str(len(stmts))
            stmts.append((f"import {mod} as {a}", [a] + [f"{a}.{n}" for n in r.sample(names, min(2, len(names)))]))
        else:
            last = mod.rsplit(".", 1)[-1]
            stmts.append((f"import {mod} as {last}", [last] + [f"{last}.{n}" for n in r.sample(names, min(2, len(names)))]))

    world_mods = [alpha, beta, pkg, f"{pkg}.sub", f"{pkg}.deep", f"{pkg}.deep.leaf"]
    for _ in range(r.randint(2, 6)):
        mod = r.choice(world_mods)
        what = r.choice(["from", "from", "star", "plain"])
        if what == "from":
            from_import(mod)
        elif what == "star":
            star_import(mod)
        else:
            plain_import(mod)
    if kind == "member":  # lives in pkg/app.py or pkg/app/__init__.py
        rel = {f"{pkg}.sub": ".sub", f"{pkg}.deep": ".deep", f"{pkg}.deep.leaf": ".deep.leaf", pkg: "."}
        if info.get("member_depth", 1) == 2:
            rel = {k: "." + v for k, v in rel.items()}
        for _ in range(r.randint(1, 3)):
            mod = r.choice(sorted(rel))
            what = r.choice(["from", "from", "star", "submodule"])
            if what == "from":
                from_import(mod, written=rel[mod])
            elif what == "star":
                star_import(mod, written=rel[mod])
            elif mod != pkg:
                dots = rel[mod][: len(rel[mod]) - len(rel[mod].lstrip("."))]
                parent, _, last = rel[mod].lstrip(".").rpartition(".")
                stmts.append((f"from {dots}{parent} import {last}", [last] + [f"{last}.{n}" for n in r.sample(pub(mod), min(1, len(pub(mod))))]))
    for _ in range(r.randint(0, 3)):
        stmts.append(r.choice(STDLIB_IMPORTS))
    r.shuffle(stmts)

    out, tag = [], [0]
    if r.random() < 0.3:
        out.append('"""client docstring"""')
    if r.random() < 0.2:
        out.append("from __future__ import annotations")

    def see(expr, indent=""):
        tag[0] += 1
        return f"{indent}see('{tag[0]}:{expr}', {expr})"

    used_later = []
    positions = ["top"] * 6 + ["function", "if_block", "try_block", "after_code", "duplicate", "unused", "method"]
    fn_count = 0
    tail = []
    for text, uses in stmts:
        pos = r.choice(positions)
        uses = list(uses)
        if pos == "top":
            out.append(text)
            used_later += uses
        elif pos == "unused":
            out.append(text)
            if len(uses) > 1 and r.random() < 0.5:
                used_later.append(uses[0])  # partially used
        elif pos == "duplicate":
            out.append(text)
            used_later += uses
            tail.append(("dup", text, uses))
        elif pos == "after_code":
            out.append(see("len"))
            out.append(text)
            used_later += uses
        elif pos == "if_block":
            cond = r.choice(["True", "len('a') == 1", "not None"])
            out += [f"if {cond}:"] + ["    " + l for l in text.split("\n")]
            if r.random() < 0.5:
                out += ["else:", "    " + (uses[0].split(".")[0] if "*" not in text else "unused_marker") + " = None"]
            used_later += uses
        elif pos == "try_block":
            out += ["try:"] + ["    " + l for l in text.split("\n")] + ["except ImportError:", "    " + ("pass" if "*" in text else uses[0].split(".")[0] + " = None")]
            used_later += uses
        elif pos in ("function", "method") and "*" not in text and "__future__" not in text:
            fn_count += 1
            name = f"local_user_{fn_count}"
            body = ["    " + l for l in text.split("\n")] + [see(u, "    ") for u in uses] + [f"    return {uses[0]}"]
            if pos == "function":
                tail.append(("fn", "\n".join([f"def {name}():"] + body + ["", "", f"see('call:{name}', {name}())"]), []))
            else:
                body = ["    " + l for l in body]
                tail.append(("fn", "\n".join([f"class Holder{fn_count}:", f"    def {name}(self):"] + body + ["", "", f"see('call:{name}', Holder{fn_count}().{name}())"]), []))
        else:
            out.append(text)
            used_later += uses
    if r.random() < 0.25:  # a module that needs a path manipulation first
        out += ["import sys", f"sys.path.insert(0, {info['extra_dir']!r})", f"import {gamma}", see(f"{gamma}.fg")]
        if r.random() < 0.5:
            tail.append(("fn", f"def path_user():\n    import {gamma}\n    return {gamma}.KG\n\n\nsee('call:path_user', path_user())", []))
    out.append("")
    r.shuffle(used_later)
    seen = []
    for u in used_later:
        if u in seen and r.random() < 0.7:
            continue
        seen.append(u)
        out.append(see(u))
    if seen and r.random() < 0.5:  # a function that reads module-level imports
        picks = r.sample(seen, min(3, len(seen)))
        out += ["", "", "def reader():"] + [see(u, "    ") for u in picks] + [f"    return [{', '.join(picks)}]", "", "", "see('call:reader', reader())"]
    for kind_, text, uses in tail:
        if kind_ == "dup":
            out += [text] + [see(u) for u in uses[:2]]
        else:
            out += ["", "", text]
    return "\n".join(out) + "\n"
