"""Instrumentation layer: harness-side wrappers around the real pyrefact functions.

Every wrapper calls the real function and returns its real result (or re-raises its real
exception); it only records. Nothing here edits /repo.
"""
from __future__ import annotations

import ast
import functools
import importlib
import inspect
import sys
import time

RULE_MODULES = (
    "fixes", "abstractions", "object_oriented", "performance", "performance_numpy",
    "performance_pandas", "symbolic_math", "tracing",
)
LAYOUT_STAGES = (
    ("rmspace", "format_str"),
    ("pyrefact.fixes", "fix_too_many_blank_lines"),
    ("pyrefact.fixes", "fix_line_lengths"),
    ("pyrefact.fixes", "fix_import_spacing"),
    ("pyrefact.formatting", "format_with_black"),
    ("pyrefact.formatting", "collapse_trailing_parentheses"),
)
DIRECT_EDITORS = ("alter_code", "remove_nodes", "_insert_nodes", "_replace_nodes")


class Recorder:
    def __init__(self):
        self.reset()
        self.evals = {}
        self.missing = []

    def reset(self):
        self.steps = []      # H-rule
        self.passes = []     # H-sched
        self.stages = []     # H-stage
        self.edits = []      # H-direct
        self.cache = []      # H-cache violations only
        self.stack = []      # names of the rules currently executing
        self.cache_checks = 0
        self.cur_pass = None

    def bump(self, name):
        self.evals[name] = self.evals.get(name, 0) + 1


REC = Recorder()
_installed = set()
M = {}


def mods():
    """Import pyrefact from the working tree; returns {short name: module}."""
    if M:
        return M
    import os

    repo = os.environ.get("VERIF_REPO", "/repo")
    import pyrefact  # noqa: F401

    if not os.path.abspath(pyrefact.__file__).startswith(os.path.abspath(repo) + os.sep):
        raise RuntimeError(f"pyrefact imported from {pyrefact.__file__}, expected under {repo}")
    for name in RULE_MODULES + ("main", "core", "processing", "pattern_matching", "formatting", "parsing",
                                "constants", "style", "logs"):
        try:
            M[name] = importlib.import_module("pyrefact." + name)
        except Exception as exc:  # an edited tree may not import: caller decides
            REC.missing.append(f"import pyrefact.{name}: {type(exc).__name__}: {exc}")
    try:
        M["logs"].set_level(100)
    except Exception:
        pass
    return M


# text -> text helpers that are an inner step of a rule which checks their result (not rules: what they return never leaves the rule unchecked)
INNER_STEPS = {("fixes", "_limit_blank_lines")}


def rule_functions():
    """{(module short name, function name): function} for every `source -> str` style function."""
    out = {}
    m = mods()
    for short in RULE_MODULES:
        mod = m.get(short)
        if mod is None:
            continue
        for name, obj in list(vars(mod).items()):
            if not inspect.isfunction(obj) or getattr(obj, "__module__", None) != mod.__name__:
                continue
            real = getattr(obj, "__verif_wrapped__", obj)
            inner = getattr(real, "_fix_func", real)
            try:
                params = list(inspect.signature(inner).parameters)
            except (TypeError, ValueError):
                continue
            if not params or params[0] != "source":
                continue
            if inspect.isgeneratorfunction(real):
                continue
            if (short, name) in INNER_STEPS:
                continue
            out[(short, name)] = obj
    return out


def pipeline_rules():
    """Names `module.func` called on `source` from main._multi_run_fixes / format_code, from the AST of main.py."""
    m = mods()
    src = inspect.getsource(m["main"])
    tree = ast.parse(src)
    names = []
    for fn in tree.body:
        if isinstance(fn, ast.FunctionDef) and fn.name in ("_multi_run_fixes", "format_code"):
            for node in ast.walk(fn):
                if isinstance(node, ast.Attribute) and isinstance(node.value, ast.Name) and node.value.id in RULE_MODULES:
                    key = (node.value.id, node.attr)
                    if key not in names:
                        names.append(key)
    rf = rule_functions()
    return [k for k in names if k in rf]


# --------------------------------------------------------------------------- H-rule
def install_rule_hooks(on_step=None):
    if "rule" in _installed:
        return
    _installed.add("rule")
    m = mods()
    for (short, name), fn in rule_functions().items():
        setattr(m[short], name, _wrap_rule(short, name, fn, on_step))
    # processing.chain returns a closure that applies several rules at once: record it as one step named after its parts
    proc = m["processing"]
    real_chain = proc.chain

    @functools.wraps(real_chain)
    def chain(fix_funcs, *args, **kwargs):
        fix_funcs = tuple(fix_funcs)
        parts = "+".join(getattr(f, "__name__", "?") for f in fix_funcs)
        return _wrap_rule("processing", f"chain[{parts}]", real_chain(fix_funcs, *args, **kwargs), on_step)

    proc.chain = chain


def _wrap_rule(short, name, fn, on_step):
    qual = f"{short}.{name}"

    @functools.wraps(fn)
    def wrapper(source, *args, **kwargs):
        REC.bump("rule")
        depth = len(REC.stack)
        REC.stack.append(qual)
        t0 = time.process_time()
        try:
            result = fn(source, *args, **kwargs)
        except BaseException as exc:
            REC.stack.pop()
            if isinstance(source, str):
                REC.steps.append({"rule": qual, "depth": depth, "in": source, "out": None,
                                  "exc": type(exc).__name__, "cpu": time.process_time() - t0})
            raise
        REC.stack.pop()
        if isinstance(source, str) and isinstance(result, str):
            step = {"rule": qual, "depth": depth, "in": source, "out": result,
                    "cpu": time.process_time() - t0}
            if "preserve" in kwargs:
                step["preserve"] = sorted(kwargs["preserve"])
            REC.steps.append(step)
            if on_step is not None:
                on_step(step)
        return result

    wrapper.__verif_wrapped__ = fn
    return wrapper


# --------------------------------------------------------------------------- H-stage
def install_stage_hooks():
    if "stage" in _installed:
        return
    _installed.add("stage")
    mods()
    for modname, name in LAYOUT_STAGES:
        try:
            mod = importlib.import_module(modname)
            fn = getattr(mod, name)
        except Exception:
            REC.missing.append(f"{modname}.{name}")
            continue
        real = getattr(fn, "__verif_wrapped__", None)
        setattr(mod, name, _wrap_stage(f"{modname.split('.')[-1]}.{name}", fn))
    # formatting.outside_strings(func, source) (repository fix 3d0f9c0) runs a text-level layout function on a copy of the source in which string literals are
    # placeholders. The stage a user sees is the whole call; what the inner function sees is not source code, so inner stage events are suppressed meanwhile.
    fmt = importlib.import_module("pyrefact.formatting")
    real_outside = getattr(fmt, "outside_strings", None)
    if real_outside is not None:
        @functools.wraps(real_outside)
        def outside_strings(func, source, *args, **kwargs):
            name = getattr(func, "__name__", "")
            inner = getattr(func, "__verif_wrapped__", func)
            qual = {"<lambda>": "expandtabs", "format_str": "rmspace.format_str", "_limit_blank_lines": "fixes._limit_blank_lines"}.get(getattr(inner, "__name__", name), f"outside_strings[{name}]")
            REC.bump("stage")
            REC.masked = getattr(REC, "masked", 0) + 1
            try:
                res = real_outside(func, source, *args, **kwargs)
            finally:
                REC.masked -= 1
            # (the blank-line limiter is an inner step of fixes.fix_too_many_blank_lines, which is a stage of its own with a validity guard around this call)
            if isinstance(source, str) and isinstance(res, str) and not REC.masked and qual != "fixes._limit_blank_lines":
                REC.stages.append({"stage": qual, "in": source, "out": res, "in_rule": list(REC.stack), "kwargs": {}})
            return res

        fmt.outside_strings = outside_strings
    proc = M["processing"]
    fn = proc.minimize_whitespace_line_differences

    @functools.wraps(fn)
    def mwld(source, new_source):
        REC.bump("stage")
        res = fn(source, new_source)
        REC.stages.append({"stage": "processing.minimize_whitespace_line_differences", "old": source,
                           "in": new_source, "out": res[0], "in_rule": list(REC.stack)})
        return res

    proc.minimize_whitespace_line_differences = mwld


def _wrap_stage(qual, fn):
    @functools.wraps(fn)
    def wrapper(source, *args, **kwargs):
        REC.bump("stage")
        res = fn(source, *args, **kwargs)
        if isinstance(source, str) and isinstance(res, str) and not getattr(REC, "masked", 0):
            REC.stages.append({"stage": qual, "in": source, "out": res, "in_rule": list(REC.stack),
                               "kwargs": {k: v for k, v in kwargs.items() if isinstance(v, (int, str))}})
        return res

    wrapper.__verif_wrapped__ = getattr(fn, "__verif_wrapped__", fn)
    return wrapper


# --------------------------------------------------------------------------- H-sched
def install_sched_hooks(keep_text=True):
    """Record, per scheduling pass: what each rule yielded, what was scheduled, what was applied."""
    if "sched" in _installed:
        return
    _installed.add("sched")
    m = mods()
    proc, core = m["processing"], m["core"]
    real_schedule, real_apply, real_do = proc._schedule_rewrites, proc._apply_rewrites, proc._do_rewrite

    def rng_of(old, new, source):
        try:
            if isinstance(old, core.Range):
                return (old.start, old.end)
            if isinstance(old, ast.AST):
                r = core.get_charnos(old, source)
                return (r.start, r.end)
            if old is None and isinstance(new, ast.AST):
                r = core.get_charnos(new, source)
                return (r.start, r.start)
        except Exception as exc:
            return ("error", type(exc).__name__)
        return None

    def newtext(new):
        if new is None:
            return ""
        if isinstance(new, ast.AST):
            try:
                return ast.unparse(new)
            except Exception:
                return "<unparse failed>"
        return str(new)

    def schedule(source, funcs):
        REC.bump("sched")
        funcs = list(funcs)
        p = {"source": source, "stack": list(REC.stack), "yielded": [], "groups": [], "scheduled": None,
             "do": [], "result": None, "exc": None}
        wrapped = []
        for k, (func, args, kwargs) in enumerate(funcs):
            p["groups"].append(getattr(func, "__name__", "?"))
            wrapped.append((_recording_gen(func, k, p, source, rng_of, newtext), args, kwargs))
        try:
            result = real_schedule(source, wrapped)
        except BaseException as exc:
            p["exc"] = type(exc).__name__
            REC.passes.append(p)
            raise
        sched = []
        for t, (rng, rewrite) in result:
            sched.append({"group": t.group_number, "tx": t.transaction_number,
                          "range": (rng.start, rng.end), "new": newtext(rewrite.new)})
        p["scheduled"] = sched
        REC.passes.append(p)
        REC.cur_pass = p
        return result

    def apply(source, rewrites):
        REC.bump("apply")
        p = REC.cur_pass
        if p is None or p["source"] != source or p["result"] is not None:
            p = {"source": source, "stack": list(REC.stack), "yielded": None, "groups": [], "scheduled": None,
                 "do": [], "result": None, "exc": None}
            REC.passes.append(p)
        REC.cur_pass = p
        p["applying"] = True
        try:
            res = real_apply(source, rewrites)
        except BaseException as exc:
            p["exc"] = type(exc).__name__
            p["applying"] = False
            raise
        p["applying"] = False
        p["result"] = res
        REC.cur_pass = None
        return res

    def do_rewrite(source, rewrite, **kw):
        REC.bump("do_rewrite")
        res = real_do(source, rewrite, **kw)
        p = REC.cur_pass
        if p is not None and p.get("applying"):
            old, new = rewrite
            p["do"].append({"range": rng_of(old, new, source), "new": newtext(new), "in": source if keep_text else None,
                            "out": res if keep_text else None, "changed": res != source})
        return res

    proc._schedule_rewrites = schedule
    proc._apply_rewrites = apply
    proc._do_rewrite = do_rewrite


def _noting_exceptions(it, k, p):
    """Pass the items of a rule's generator on; note in the pass record when the rule raises before it is done (its transactions are then incomplete)."""
    try:
        yield from it
    except GeneratorExit:
        raise
    except BaseException as exc:
        p.setdefault("raised", {})[str(k)] = type(exc).__name__
        raise


def _recording_gen(func, k, p, source, rng_of, newtext):
    @functools.wraps(func)
    def gen(*args, **kwargs):
        for tup in _noting_exceptions(func(*args, **kwargs), k, p):
            try:
                if len(tup) == 3:
                    old, new, tx = tup
                    explicit = True
                else:
                    old, new = tup
                    tx, explicit = None, False
                kind = "insert" if old is None else ("delete" if (new is None or new == "") else "replace")
                p["yielded"].append({"group": k, "rule": getattr(func, "__name__", "?"), "tx": tx, "explicit": explicit,
                                     "range": rng_of(old, new, source), "new": newtext(new), "kind": kind,
                                     "old_is_range": not isinstance(old, ast.AST) and old is not None})
            except Exception as exc:  # never disturb the code under test
                p["yielded"].append({"group": k, "error": repr(exc)})
            yield tup

    return gen


# --------------------------------------------------------------------------- H-direct
def install_direct_hooks():
    if "direct" in _installed:
        return
    _installed.add("direct")
    proc = mods()["processing"]
    for name in DIRECT_EDITORS:
        fn = getattr(proc, name, None)
        if fn is None:
            REC.missing.append(f"processing.{name}")
            continue
        setattr(proc, name, _wrap_direct(name, fn))


def _wrap_direct(name, fn):
    @functools.wraps(fn)
    def wrapper(source, *args, **kwargs):
        REC.bump("direct")
        depth = sum(1 for e in REC.edits if e.get("open"))
        ev = {"editor": name, "in": source, "out": None, "stack": list(REC.stack), "open": True, "depth": depth}
        REC.edits.append(ev)
        try:
            res = fn(source, *args, **kwargs)
        finally:
            ev["open"] = False
        ev["out"] = res
        return res

    return wrapper


# --------------------------------------------------------------------------- H-cache
def install_cache_hooks():
    """Fidelity invariant evaluated on every return of the caching functions."""
    if "cache" in _installed:
        return
    _installed.add("cache")
    core = mods()["core"]
    real_parse = core.parse
    fresh = {}

    def fresh_dump(src):
        d = fresh.get(src)
        if d is None:
            if len(fresh) > 4000:
                fresh.clear()
            d = fresh[src] = ast.dump(ast.parse(src), include_attributes=True)
        return d

    touched = set()

    def audit():
        """Re-validate the cached tree of every text parsed since the last audit; on corruption clear the cache so
        that the blame does not cascade to later consumers. Returns the corrupted source texts."""
        bad = []
        for src in list(touched):
            try:
                tree = real_parse(src)
            except SyntaxError:
                continue
            REC.cache_checks += 1
            if ast.dump(tree, include_attributes=True) != fresh_dump(src):
                bad.append(src)
        touched.clear()
        if bad and hasattr(real_parse, "cache_clear"):
            real_parse.cache_clear()
        return bad

    REC.cache_audit = audit

    @functools.wraps(real_parse)
    def parse(source_code):
        tree = real_parse(source_code)
        touched.add(source_code)
        if len(touched) > 3000:
            touched.clear()
        REC.cache_checks += 1
        try:
            ok = ast.dump(tree, include_attributes=True) == fresh_dump(source_code)
        except Exception as exc:
            ok = False
        if not ok:
            REC.cache.append({"fn": "core.parse", "source": source_code, "stack": list(REC.stack)})
        return tree

    for attr in ("cache_info", "cache_clear"):
        if hasattr(real_parse, attr):
            setattr(parse, attr, getattr(real_parse, attr))
    core.parse = parse

    real_ct = core.compile_template
    first = {}

    @functools.wraps(real_ct)
    def compile_template(*args, **kwargs):
        res = real_ct(*args, **kwargs)
        REC.cache_checks += 1
        try:
            key = (args, tuple(sorted(kwargs.items(), key=lambda kv: kv[0])))
            hash(key)
        except TypeError:
            return res
        try:
            ser = serialise_template(res)
        except Exception:
            return res
        if key not in first:
            if len(first) > 20000:
                first.clear()
            first[key] = ser
        elif first[key] != ser:
            REC.cache.append({"fn": "core.compile_template", "source": repr(args[:1])[:500], "stack": list(REC.stack)})
        return res

    core.compile_template = compile_template
    try:
        M["pattern_matching"].compile = compile_template
    except Exception:
        pass


def serialise_template(t, depth=0):
    if depth > 200:
        return "<deep>"
    if isinstance(t, type):
        return f"<type {t.__module__}.{t.__qualname__}>"
    if isinstance(t, (list, tuple)):
        return f"{type(t).__name__}[" + ",".join(serialise_template(x, depth + 1) for x in t) + "]"
    if isinstance(t, (set, frozenset)):
        return "set{" + ",".join(sorted(serialise_template(x, depth + 1) for x in t)) + "}"
    if isinstance(t, ast.AST):
        fields = sorted(vars(t).items())
        return f"{type(t).__name__}(" + ",".join(f"{k}={serialise_template(v, depth + 1)}" for k, v in fields) + ")"
    return repr(t)


def call_rule(fn, text, preserve=frozenset()):
    """Call a rule function alone, supplying the extra arguments its signature requires."""
    real = getattr(fn, "__verif_wrapped__", fn)
    inner = getattr(real, "_fix_func", real)
    try:
        params = inspect.signature(inner).parameters
    except (TypeError, ValueError):
        return fn(text)
    kwargs = {}
    if "preserve" in params:
        kwargs["preserve"] = preserve
    if "root_is_static" in params:
        kwargs["root_is_static"] = True
    if "max_line_length" in params and params["max_line_length"].default is inspect.Parameter.empty:
        kwargs["max_line_length"] = 100
    return fn(text, **kwargs)
