"""Execution oracle: run a program text and observe (status, stdout).

status in {"ok", "exc:<Class>", "cpu_budget", "syntax"}. A program is *in class* iff the original terminates
normally, deterministically and prints nothing introspective. A transformed text *agrees* iff it also ends "ok"
with byte-identical stdout.
"""
from __future__ import annotations

import io
import warnings
import os
import re
import signal
import sys
import time

warnings.filterwarnings("ignore", category=SyntaxWarning)
INTROSPECTIVE = re.compile(r"<function |<class |<module | object at 0x|<built-in |<bound method |<generator |<lambda>|<code object")
SHIMS = os.path.join(os.path.dirname(os.path.dirname(os.path.abspath(__file__))), "shims")


class _Budget(BaseException):
    pass


def _raise_budget(signum, frame):
    raise _Budget()


def run_program(text: str, cpu_s: float = 3.0, argv=None):
    """exec() the text as __main__ with stdout captured; returns (status, stdout, cpu_seconds)."""
    buf = io.StringIO()
    g = {"__name__": "__main__", "__builtins__": __builtins__}
    try:
        code = compile(text, "<program>", "exec")
    except (SyntaxError, ValueError, MemoryError, RecursionError) as exc:
        return ("syntax", "", 0.0)
    old_out, old_err = sys.stdout, sys.stderr
    old_path = list(sys.path)
    old_handler = signal.getsignal(signal.SIGVTALRM)
    old_modules = set(sys.modules)
    if SHIMS not in sys.path:
        sys.path.append(SHIMS)
    sys.stdout = buf
    sys.stderr = io.StringIO()
    t0 = time.process_time()
    signal.signal(signal.SIGVTALRM, _raise_budget)
    signal.setitimer(signal.ITIMER_VIRTUAL, cpu_s)
    try:
        try:
            exec(code, g)
            status = "ok"
        except _Budget:
            status = "cpu_budget"
        except BaseException as exc:
            if type(exc).__name__ == "CpuBudget":
                signal.setitimer(signal.ITIMER_VIRTUAL, 0)
                raise
            status = "exc:" + type(exc).__name__
    finally:
        signal.setitimer(signal.ITIMER_VIRTUAL, 0)
        signal.signal(signal.SIGVTALRM, old_handler or signal.SIG_DFL)
        sys.stdout, sys.stderr = old_out, old_err
        sys.path[:] = old_path
        _reset_logging()
    return (status, buf.getvalue(), time.process_time() - t0)


def _reset_logging():
    lg = sys.modules.get("logging")
    if lg is None:
        return
    try:
        root = lg.getLogger()
        for h in list(root.handlers):
            root.removeHandler(h)
        root.setLevel(lg.WARNING)
        for name, logger in list(lg.Logger.manager.loggerDict.items()):
            if isinstance(logger, lg.Logger) and not name.startswith(("pyrefact", "blib2to3", "black", "concurrent", "asyncio")):
                for h in list(logger.handlers):
                    logger.removeHandler(h)
                logger.setLevel(lg.NOTSET)
                logger.disabled = False
                logger.propagate = True
    except Exception:
        pass


def in_class(text: str, first=None, cpu_s: float = 3.0) -> bool:
    """Two runs of the original end ok with identical, non-introspective stdout."""
    a = first or run_program(text, cpu_s)
    if a[0] != "ok" or INTROSPECTIVE.search(a[1]):
        return False
    b = run_program(text, cpu_s)
    return b[0] == "ok" and b[1] == a[1]


def agrees(before, after) -> bool:
    return after[0] == "ok" and before[0] == "ok" and after[1] == before[1]


def budget_for(before) -> float:
    """CPU budget for a transformed program: 50x the original, at least 5 s."""
    return max(5.0, 50.0 * (before[2] if len(before) > 2 else 0.1))
