"""Shared worker: one format_code call observed through every hook; each check reads the part it decides."""
from __future__ import annotations

import ast
import textwrap
import time

from . import hooks, tasks


def valid(text: str) -> bool:
    try:
        ast.parse(text)
        return True
    except (SyntaxError, ValueError, RecursionError, MemoryError):
        return False


def compiles(text: str) -> bool:
    """Stricter than parsing: also what the compiler's later passes reject (return / yield outside a function, break outside a loop, duplicate parameters,
    misplaced nonlocal / global ...)."""
    import warnings

    try:
        with warnings.catch_warnings():
            warnings.simplefilter("ignore")
            compile(text, "<verif>", "exec", dont_inherit=True)
        return True
    except (SyntaxError, ValueError, RecursionError, MemoryError, OverflowError):
        return False


def valid_fragment(text: str) -> bool:
    """Validity of a possibly indented fragment: valid as it is, as the body of a block (the way Python reads indented code; lines inside multi-line literals
    may be indented less, or with other characters, than the code), or after dedent."""
    if valid(text) or valid(textwrap.dedent(text)):
        return True
    first = next((l for l in text.split("\n") if l.strip()), "")
    return first[:1] in (" ", "\t") and valid("if True:\n" + text)


def squash(text: str) -> str:
    return "".join(text.split())


def norm_dump(text: str):
    """ast.dump with whitespace inside doc-string constants collapsed (black normalises doc-strings by design)."""
    try:
        tree = ast.parse(text)
    except (SyntaxError, ValueError, RecursionError, MemoryError):
        # an indented fragment: read it as the body of a block, the way Python would (textwrap.dedent would also strip the lines inside multi-line literals,
        # or refuse to dedent at all when such a line is indented less than the code)
        tree = None
        first = next((l for l in text.split("\n") if l.strip()), "")
        if first[:1] in (" ", "\t"):
            try:
                tree = ast.Module(body=ast.parse("if True:\n" + text).body[0].body, type_ignores=[])
            except (SyntaxError, ValueError, RecursionError, MemoryError, IndexError, AttributeError):
                tree = None
        if tree is None:
            try:
                tree = ast.parse(textwrap.dedent(text))
            except (SyntaxError, ValueError, RecursionError, MemoryError):
                return None
    for node in ast.walk(tree):
        # a bare string statement is a doc-string to black wherever it stands (its value is discarded at run time)
        if isinstance(node, ast.Expr) and isinstance(node.value, ast.Constant) and isinstance(node.value.value, str):
            node.value.value = " ".join(node.value.value.split())
        if isinstance(node, ast.AnnAssign):
            node.simple = 1  # `(a): int = 1` -> `a: int = 1`: black drops the redundant parentheses, only this flag differs
    return ast.dump(tree)


def observe_format(text: str, options: dict | None = None, want=("rule", "stage")):
    """Run format_code under the requested hooks. Returns a dict of observations (texts included)."""
    from . import effects

    m = hooks.mods()
    if "rule" in want:
        hooks.install_rule_hooks()
    if "stage" in want:
        hooks.install_stage_hooks()
    if "sched" in want:
        hooks.install_sched_hooks()
    if "direct" in want:
        hooks.install_direct_hooks()
    if "cache" in want:
        hooks.install_cache_hooks()
    R = hooks.REC
    R.reset()
    opts = dict(options or {})
    if "preserve" in opts:
        opts["preserve"] = frozenset(opts["preserve"])
    t0 = time.process_time()
    status, val, effs = effects.observed(lambda: m["main"].format_code(text, **opts))
    cpu = time.process_time() - t0
    obs = {"cpu": cpu, "effects": effs, "out": val if status == "value" else None, "crash": None,
           "steps": list(R.steps), "stages": list(R.stages), "passes": list(R.passes), "edits": list(R.edits), "cache": list(R.cache),
           "cache_checks": R.cache_checks}
    if status != "value":
        obs["crash"] = tasks.crash_info(effects.LAST["exc"])
    return obs
