"""Subprocess worker pool that survives dying children (unlike multiprocessing.Pool)."""
from __future__ import annotations

import json
import os
import queue
import select
import subprocess
import threading
import time

from . import env


class _Worker:
    def __init__(self, wenv: dict, oneshot: bool = False):
        self.wenv = wenv
        self.oneshot = oneshot
        self.proc = None
        self.spawn()

    def spawn(self):
        self.kill()
        self.proc = subprocess.Popen(
            [env.PY, "-u", "-m", "harness.worker"],
            cwd=str(env.VERIF),
            env=self.wenv,
            stdin=subprocess.PIPE,
            stdout=subprocess.PIPE,
            stderr=None if self.wenv.get("VERIF_WORKER_STDERR") == "keep" else subprocess.DEVNULL,
            bufsize=0,
        )
        self.buf = b""

    def kill(self):
        if self.proc is not None:
            try:
                self.proc.kill()
            except OSError:
                pass
            try:
                self.proc.wait(timeout=10)
            except Exception:
                pass
            for f in (self.proc.stdin, self.proc.stdout):
                try:
                    f.close()
                except Exception:
                    pass
            self.proc = None

    def call(self, task: dict, wall_s: float) -> dict:
        if self.proc is None or self.proc.poll() is not None:
            self.spawn()
        try:
            self.proc.stdin.write((json.dumps(task) + "\n").encode())
            self.proc.stdin.flush()
        except (BrokenPipeError, OSError):
            self.spawn()
            self.proc.stdin.write((json.dumps(task) + "\n").encode())
            self.proc.stdin.flush()
        deadline = time.monotonic() + wall_s
        fd = self.proc.stdout.fileno()
        while True:
            nl = self.buf.find(b"\n")
            if nl >= 0:
                line, self.buf = self.buf[:nl], self.buf[nl + 1 :]
                try:
                    reply = json.loads(line)
                except ValueError:
                    continue
                if reply.get("status") == "cpu_budget" or self.oneshot:
                    self.spawn()  # oneshot: every task sees a fresh interpreter (no history, cold caches)
                return reply
            remaining = deadline - time.monotonic()
            if remaining <= 0:
                self.spawn()
                return {"i": task.get("i"), "status": "watchdog"}
            r, _, _ = select.select([fd], [], [], min(remaining, 1.0))
            if r:
                chunk = os.read(fd, 1 << 16)
                if not chunk:
                    rc = self.proc.poll()
                    self.spawn()
                    return {"i": task.get("i"), "status": "crash", "returncode": rc}
                self.buf += chunk


class Pool:
    """`map(fn, args)` returns one reply dict per argument, in order.

    reply["status"] in {"ok", "exc", "cpu_budget", "crash", "watchdog"}; "ok" carries "value".
    """

    def __init__(self, n: int | None = None, hashseed=0, extra_env: dict | None = None, oneshot: bool = False):
        self.oneshot = oneshot
        self.n = n or min(16, os.cpu_count() or 4)
        self.wenv = env.worker_env(hashseed, extra_env)
        self.workers: list[_Worker] = []

    def __enter__(self):
        return self

    def __exit__(self, *exc):
        self.close()

    def close(self):
        for w in self.workers:
            w.kill()
        self.workers = []

    def map(self, fn: str, args: list, cpu_s: float = 60.0, wall_s: float | None = None,
            progress: str | None = None) -> list:
        if wall_s is None:
            wall_s = cpu_s * 6 + 120
        n = min(self.n, max(1, len(args)))
        while len(self.workers) < n:
            self.workers.append(_Worker(self.wenv, self.oneshot))
        results = [None] * len(args)
        q: queue.Queue = queue.Queue()
        for i, a in enumerate(args):
            q.put((i, a))
        done = [0]
        lock = threading.Lock()

        def run(w: _Worker):
            while True:
                try:
                    i, a = q.get_nowait()
                except queue.Empty:
                    return
                try:
                    results[i] = w.call({"fn": fn, "arg": a, "i": i, "cpu_s": cpu_s}, wall_s)
                except Exception as exc:  # pragma: no cover - harness failure
                    results[i] = {"i": i, "status": "harness_error", "msg": repr(exc)}
                    try:
                        w.spawn()
                    except Exception:
                        pass
                with lock:
                    done[0] += 1

        threads = [threading.Thread(target=run, args=(w,), daemon=True) for w in self.workers[:n]]
        for t in threads:
            t.start()
        for t in threads:
            t.join()
        return results
