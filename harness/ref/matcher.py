"""Independent reference matcher for the pattern language (properties C12-C14).

Works from the *pattern string*: own tokenisation of {{name}}, {{name?}}, {{name*}}, {{name+}}, {{...}},
{{...?}}, {{...*}}, {{...+}} into placeholder identifiers, then a complete backtracking structural match
(all splits of a list are explored; one environment name -> printed tree shared by every occurrence of a
named wildcard, including every repetition of a quantified one - the reading the pinned tests fix).
Positions, expression contexts and the `kind` of constants are not part of a tree.
"""
from __future__ import annotations

import ast
import re
import textwrap

WILD = re.compile(r"\{\{(\w+|\.\.\.)([?*+]?)\}\}")
PREFIX = "WLD9"
IGNORED_FIELDS = {"ctx", "kind", "type_comment"}
BODY_TYPES = (ast.Module, ast.FunctionDef, ast.AsyncFunctionDef, ast.ClassDef, ast.If, ast.For, ast.While, ast.With)
ORELSE_TYPES = (ast.If, ast.For, ast.While)


class Undefined(Exception):
    """The reference declines to judge (construct outside the documented pattern language)."""


class Pattern:
    def __init__(self, text: str):
        self.text = text
        self.wild = {}  # placeholder id -> (name or None, quantifier)
        counter = [0]

        def repl(m):
            name, q = m.group(1), m.group(2)
            counter[0] += 1
            if name == "...":
                ident = f"{PREFIX}a{counter[0]}"
                self.wild[ident] = (None, q)
            else:
                ident = PREFIX + "n_" + name + "_" + {"": "o", "?": "q", "*": "s", "+": "p"}[q]
                self.wild[ident] = (name, q)
            return ident

        py = WILD.sub(repl, textwrap.dedent(text))
        self.py = py
        tree = ast.parse(py)
        if not tree.body:
            raise Undefined("empty pattern")
        self.body = tree.body
        quants = {}
        for name, q in self.wild.values():
            if name is not None:
                quants.setdefault(name, set()).add(q)
        if any(len(v) > 1 for v in quants.values()):
            raise Undefined("one name used with two different quantifiers")
        if len(self.body) == 1:
            stmt = self.body[0]
            self.kind = "expr" if isinstance(stmt, ast.Expr) else "stmt"
            self.template = stmt.value if self.kind == "expr" else stmt
            if self._placeholder(self.template) or (isinstance(stmt, ast.Expr) and self._placeholder(stmt.value)):
                raise Undefined("pattern is a bare wildcard")
        else:
            self.kind = "seq"
            self.template = self.body

    # ------------------------------------------------------------------ helpers
    def _placeholder(self, t):
        """(name, quantifier) if `t` is a wildcard standing for a whole element, else None."""
        if isinstance(t, ast.Name) and t.id in self.wild:
            return self.wild[t.id]
        if isinstance(t, ast.Expr) and isinstance(t.value, ast.Name) and t.value.id in self.wild:
            return self.wild[t.value.id]
        return None

    def _alias_placeholder(self, t):
        if isinstance(t, ast.alias) and t.name in self.wild:
            return self.wild[t.name]
        return None

    # ------------------------------------------------------------------ matching
    def match(self, t, n, env):
        """Yield every environment extending `env` under which template `t` matches value `n`."""
        if isinstance(t, list):
            if not isinstance(n, list):
                return
            yield from self._match_list(t, 0, n, 0, env)
            return
        ph = self._placeholder(t)
        if ph is not None:
            name, q = ph
            if q:
                raise Undefined("quantified wildcard outside a list")
            if n is None:
                return  # an absent child: no syntax tree put in place of the wildcard gives this code
            if isinstance(n, list):
                raise Undefined("wildcard against a list field")
            yield from self._bind(name, n, env)
            return
        if isinstance(t, ast.AST):
            if not isinstance(n, ast.AST) or type(n) is not type(t):
                return
            if isinstance(t, ast.alias):
                yield from self._match_alias(t, n, env, quantified=False)
                return
            yield from self._match_fields(t, n, [f for f in t._fields if f not in IGNORED_FIELDS], env)
            return
        if isinstance(t, str) and t in self.wild:
            name, q = self.wild[t]
            if q:
                raise Undefined("quantified wildcard in an identifier field")
            if not isinstance(n, str):
                raise Undefined("identifier wildcard against a non-identifier")
            yield from self._bind(name, n, env)
            return
        if isinstance(t, str) and PREFIX in t:
            raise Undefined("wildcard embedded in a dotted name")
        if type(t) is type(n) and t == n:  # `x = 1` is not `x = True` nor `x = 1.0`
            yield env

    def _match_fields(self, t, n, fields, env):
        if not fields:
            yield env
            return
        f, rest = fields[0], fields[1:]
        if f in ("type_params",) and not getattr(t, f, None) and getattr(n, f, None):
            raise Undefined("PEP 695 type parameters")
        for e in self.match(getattr(t, f, None), getattr(n, f, None), env):
            yield from self._match_fields(t, n, rest, e)

    def _match_alias(self, t, n, env, quantified):
        for e in self.match(t.name, n.name, env):
            if t.asname is None and quantified:
                yield e  # `{{name+}}` matches `x` and `x as y` alike (documented in the compiler)
            else:
                yield from self.match(t.asname, n.asname, e)

    def _bind(self, name, n, env):
        if name is None:
            yield env
            return
        key = ast.unparse(n) if isinstance(n, ast.AST) else str(n)
        if name in env:
            if env[name][0] == key:
                yield env
            return
        e = dict(env)
        e[name] = (key, n)
        yield e

    def _match_list(self, ts, i, ns, j, env):
        if i == len(ts):
            if j == len(ns):
                yield env
            return
        t = ts[i]
        ph = self._placeholder(t)
        aph = self._alias_placeholder(t)
        q = (ph or aph or (None, ""))[1]
        if not q:
            if j < len(ns):
                for e in self.match(t, ns[j], env):
                    yield from self._match_list(ts, i + 1, ns, j + 1, e)
            return
        name = (ph or aph)[0]
        lo = 1 if q == "+" else 0
        hi = min(1, len(ns) - j) if q == "?" else len(ns) - j
        for count in range(lo, hi + 1):
            envs = [env]
            for k in range(count):
                nxt = []
                for e in envs:
                    if aph is not None:
                        if isinstance(ns[j + k], ast.alias):
                            one = ast.alias(name=t.name, asname=t.asname)
                            saved = self.wild[t.name]
                            self.wild[t.name] = (saved[0], "")
                            try:
                                nxt.extend(self._match_alias(one, ns[j + k], e, quantified=True))
                            finally:
                                self.wild[t.name] = saved
                    else:
                        nxt.extend(self._bind(name, ns[j + k], e))
                envs = nxt
                if not envs:
                    break
            for e in envs:
                yield from self._match_list(ts, i + 1, ns, j + count, e)

    def matches(self, node) -> bool:
        for _ in self.match(self.template, node, {}):
            return True
        return False

    def first_env(self, node):
        for e in self.match(self.template, node, {}):
            return e
        return None

    # ------------------------------------------------------------------ search
    def search(self, tree):
        """Every occurrence: list of lists of matched nodes (one node for expr/stmt patterns)."""
        out = []
        if self.kind in ("expr", "stmt"):
            for node in ast.walk(tree):
                if type(node) is type(self.template) and self.matches(node):
                    out.append(([node], self.first_env(node)))
            return out
        for holder in ast.walk(tree):
            if not isinstance(holder, BODY_TYPES):
                continue
            bodies = [holder.body]
            if isinstance(holder, ORELSE_TYPES):
                bodies.append(holder.orelse)
            for body in bodies:
                if not body or not isinstance(body, list):
                    continue
                for a in range(len(body)):
                    for b in range(a + 1, len(body) + 1):
                        window = body[a:b]
                        env = next(self.match(self.template, window, {}), None)
                        if env is not None:
                            out.append((window, env))
        return out

    def has_toplevel_quantifier(self):
        return self.kind == "seq" and any((self._placeholder(t) or (None, ""))[1] for t in self.template)
