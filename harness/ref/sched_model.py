"""Executable model of the scheduling specification (property C10), written from the statement.

A pass is judged on what the rules *yielded* (observed by H-sched) and what the implementation
scheduled / returned. Verdict events are exactly the statement's clauses:
  (1) a transaction partially scheduled;
  (2) two scheduled rewrites overlapping;
  (3) a transaction dropped without a permitted reason;
  (4) candidate text does not parse but the pass result differs from its input;
  (5) a scheduled rewrite touching an ignore-comment line.
The stricter "implementation schedule == model schedule" is reported as information only.
"""
from __future__ import annotations

import ast
import re

IGNORE = re.compile(r"#\s*pyrefact\s*:\s*(skip_file|ignore)")
DEFAULT_BASE = -100000000


def overlaps(a, b) -> bool:
    return a[0] < b[1] and b[0] < a[1]


def ignored_line_ranges(source: str):
    out, pos = [], 0
    for line in source.splitlines(keepends=True):
        if IGNORE.search(line):
            out.append((pos, pos + len(line)))
        pos += len(line)
    return out


def touches_ignored(rng, ign) -> bool:
    return any(overlaps(rng, r) for r in ign)


def valid(text: str) -> bool:
    try:
        ast.parse(text)
        return True
    except (SyntaxError, ValueError, RecursionError, MemoryError):
        return False


def compiles(text: str) -> bool:
    import warnings

    try:
        with warnings.catch_warnings():
            warnings.simplefilter("ignore")
            compile(text, "<model>", "exec", dont_inherit=True)
        return True
    except (SyntaxError, ValueError, RecursionError, MemoryError, OverflowError):
        return False


def transactions(yielded):
    """{(group, number): [(range, new), ...]} in the numbering the statement refers to.

    A 2-tuple gets its own transaction, ordered by yield position before all explicit numbers
    (the implementation numbers them from -10**8 upwards in yield order, counting every tuple).
    """
    txs = {}
    for pos, y in enumerate(yielded, start=1):
        if "error" in y or not isinstance(y.get("range"), (list, tuple)) or y["range"][0] == "error":
            return None
        num = y["tx"] if y["explicit"] else DEFAULT_BASE + pos
        txs.setdefault((y["group"], num), []).append((tuple(y["range"]), y["new"] or ""))
    return txs


def self_overlap(rewrites, dedup=True) -> bool:
    rs = sorted(set(rewrites)) if dedup else list(rewrites)
    return any(overlaps(rs[i][0], rs[j][0]) for i in range(len(rs)) for j in range(i + 1, len(rs)))


def model_schedule(source, txs):
    """The schedule the specification describes: accepted transaction keys, in precedence order."""
    ign = ignored_line_ranges(source)
    accepted, accepted_ranges, seen = [], [], []
    reasons = {}
    for key in sorted(txs):
        rewrites = txs[key]
        why = []
        if tuple(rewrites) in seen:
            why.append("duplicate")
        seen.append(tuple(rewrites))
        if any(touches_ignored(r, ign) for r, _ in rewrites):
            why.append("ignore")
        if self_overlap(rewrites):
            why.append("self")
        if any(overlaps(r, o) for r, _ in rewrites for o in accepted_ranges):
            why.append("overlap")
        if why:
            reasons[key] = why
        else:
            accepted.append(key)
            accepted_ranges.extend(r for r, _ in set(rewrites))
    return accepted, reasons


def check_pass(p: dict):
    """Returns (violations, info) for one recorded pass (see hooks.install_sched_hooks)."""
    out, info = [], {}
    source = p["source"]
    if p.get("yielded") is None or p.get("scheduled") is None:
        info["skipped"] = "no schedule recorded"
        return out, info
    txs = transactions(p["yielded"])
    if txs is None:
        info["skipped"] = "range computation failed"
        return out, info
    ign = ignored_line_ranges(source)
    sched = {}
    for s in p["scheduled"]:
        sched.setdefault((s["group"], s["tx"]), []).append((tuple(s["range"]), s["new"] or ""))

    # (0) a rule that raised before its generator was done: what it had yielded so far is part of transactions nobody has seen the end of, so "all together
    # or not at all" leaves only "not at all" (and they neither count as dropped nor take precedence over the transactions of the other rules)
    raised = {int(k) for k in (p.get("raised") or {})}
    if raised:
        info["rules_that_raised"] = sorted(raised)
        for key in [k for k in sched if k[0] in raised]:
            out.append({"kind": "rewrites_of_a_rule_that_raised_were_scheduled", "detail": {"tx": key, "scheduled": sorted(set(sched[key])), "exception": p["raised"].get(str(key[0]))}})
            del sched[key]
        txs = {k: v for k, v in txs.items() if k[0] not in raised}

    # (1) all or nothing
    for key, rewrites in txs.items():
        got = sched.get(key)
        if got is None:
            continue
        if set(got) != set(rewrites):
            out.append({"kind": "partial_transaction", "detail": {"tx": key, "yielded": sorted(set(rewrites)), "scheduled": sorted(set(got))}})
    for key in sched:
        if key not in txs:
            out.append({"kind": "scheduled_unknown_transaction", "detail": {"tx": key}})

    # (2) no overlap among scheduled rewrites (a rewrite listed twice counts once)
    flat = sorted({(r, n, key) for key, rs in sched.items() for r, n in rs})
    for i in range(len(flat)):
        for j in range(i + 1, len(flat)):
            if overlaps(flat[i][0], flat[j][0]):
                out.append({"kind": "overlapping_scheduled", "detail": {"a": flat[i], "b": flat[j]}})

    # (3) dropped only for a permitted reason
    dropped = [k for k in txs if k not in sched]
    info["dropped"] = len(dropped)
    drop_reasons = {}
    for key in dropped:
        rewrites = txs[key]
        why = []
        if self_overlap(rewrites, dedup=False):  # weakest reading: the same range listed twice overlaps itself
            why.append("self")
        if any(touches_ignored(r, ign) for r, _ in rewrites):
            why.append("ignore")
        for other, orew in txs.items():
            if other >= key:
                continue  # no precedence
            if tuple(orew) == tuple(rewrites) or set(orew) == set(rewrites):
                why.append("duplicate")
            if any(overlaps(r, o) for r, _ in rewrites for o, _ in orew):
                why.append("overlap")
        drop_reasons[key] = sorted(set(why))
        if not why:
            out.append({"kind": "dropped_without_reason", "detail": {"tx": key, "rewrites": rewrites}})
    info["drop_reasons"] = drop_reasons

    # (5) ignore lines
    for key, rs in sched.items():
        for r, n in rs:
            if touches_ignored(r, ign):
                out.append({"kind": "scheduled_on_ignored_line", "detail": {"tx": key, "range": r}})

    # (4) rollback
    if p.get("result") is not None and p.get("do") is not None:
        cand = p["do"][-1]["out"] if p["do"] else source
        if cand is not None:
            info["candidate_valid"] = valid(cand)
            if info["candidate_valid"] and p["result"] == source and cand != source and compiles(source) and not compiles(cand):
                # parses, but is not code that Python will run although the input was (a return outside its function ...): rolling it back is the same clause
                info["candidate_valid"] = False
            if not info["candidate_valid"] and p["result"] != source:
                out.append({"kind": "no_rollback", "detail": {"candidate": cand, "result": p["result"]}})
        if not p["scheduled"] and p["result"] != source:
            out.append({"kind": "changed_without_rewrites", "detail": {"result": p["result"]}})
        if len(p["do"]) != len(p["scheduled"]):
            info["do_count_mismatch"] = (len(p["do"]), len(p["scheduled"]))

    accepted, _ = model_schedule(source, txs)
    info["model_agreement"] = sorted(accepted) == sorted(sched)
    info["n_tx"] = len(txs)
    return out, info


def splice(source: str, rewrites):
    """Reference application: replace ranges back to front (`rewrites` = [(range, new)], non-overlapping)."""
    text = source
    for (start, end), new in sorted(set(rewrites), key=lambda t: (t[0], t[1]), reverse=True):
        text = text[:start] + new + text[end:]
    return text
