"""Independent span computation from ast positions (properties C13/C14).

ast columns are UTF-8 *byte* offsets and ast line numbers follow the tokenizer's line splitting
(\\n, \\r\\n and \\r only - not \\x0c, \\x1c-\\x1e, \\x85, \\u2028, \\u2029 as str.splitlines does).
"""
from __future__ import annotations

import ast
import re

_LINE = re.compile(r"[^\r\n]*(?:\r\n|\r|\n|\Z)")


def line_starts(source: str):
    starts, pos = [], 0
    for m in _LINE.finditer(source):
        if m.end() == m.start():
            break
        starts.append(m.start())
    if not starts:
        starts = [0]
    return starts


def lines(source: str):
    st = line_starts(source) + [len(source)]
    return [source[st[i]:st[i + 1]] for i in range(len(st) - 1)]


def char_offset(source: str, lineno: int, byte_col: int, _cache={}) -> int:
    key = (id(source), len(source))
    ent = _cache.get(key)
    if ent is None or ent[0] is not source:
        _cache.clear()
        ent = _cache[key] = (source, line_starts(source), lines(source))
    _, starts, lns = ent
    line = lns[lineno - 1] if lineno - 1 < len(lns) else ""
    if line.isascii():
        return starts[lineno - 1] + byte_col if lineno - 1 < len(starts) else len(source)
    return starts[lineno - 1] + len(line.encode("utf-8")[:byte_col].decode("utf-8", "replace"))


def node_span(source: str, node: ast.AST):
    """(start, end) character offsets of the complete text of `node`, decorators included."""
    first = node
    decos = getattr(node, "decorator_list", None)
    if decos:
        first = min(decos, key=lambda d: (d.lineno, d.col_offset))
    start = char_offset(source, first.lineno, first.col_offset)
    if decos:
        # the '@' precedes the decorator expression (possibly with blanks, line breaks inside parentheses, and the parentheses themselves in between)
        k = start - 1
        while k >= 0 and source[k] in " \t(\r\n\\\x0c":
            k -= 1
        if k >= 0 and source[k] == "@":
            start = k
    end = char_offset(source, node.end_lineno, node.end_col_offset)
    return start, end


def nodes_span(source: str, nodes):
    spans = [node_span(source, n) for n in nodes]
    return min(s for s, _ in spans), max(e for _, e in spans)


def lineno_col(source: str, offset: int):
    """1-based line and 0-based *character* column of a character offset (tokenizer line splitting)."""
    starts = line_starts(source)
    ln = 0
    for i, s in enumerate(starts):
        if s <= offset:
            ln = i
        else:
            break
    return ln + 1, offset - starts[ln]
