"""Reference substitution on trees (property C14).

`instantiate` builds the replacement *tree* for one match by substituting the wildcard bindings as trees
(so `{{x}} * 2` with x = `a + b` denotes `(a + b) * 2`); `replace_nodes` rebuilds the module tree with the
matched nodes replaced. Trees are compared after an unparse/parse round trip (normalises ctx and parentheses).
"""
from __future__ import annotations

import ast
import copy
import re
import textwrap

from .matcher import WILD, Undefined

PH = "RPL9_"


def _tokenise(repl: str):
    names = {}

    def sub(m):
        name, q = m.group(1), m.group(2)
        if name == "..." or q:
            raise Undefined("replacement uses an anonymous or quantified wildcard")
        names[PH + name] = name
        return PH + name

    return WILD.sub(sub, textwrap.dedent(repl)), names


class _Inst(ast.NodeTransformer):
    def __init__(self, names, env):
        self.names, self.env = names, env

    def bound(self, ident):
        name = self.names[ident]
        if name not in self.env:
            raise Undefined(f"wildcard {name} not bound by the match")
        return self.env[name][1]

    def as_ident(self, ident):
        if ident in self.names:
            b = self.bound(ident)
            if isinstance(b, str):
                return b
            if isinstance(b, ast.Name):
                return b.id
            raise Undefined("non-identifier bound to an identifier position")
        return ident

    def visit_Name(self, node):
        if node.id in self.names:
            b = self.bound(node.id)
            if isinstance(b, str):
                return ast.Name(id=b, ctx=node.ctx)
            if isinstance(b, ast.stmt):
                raise Undefined("statement bound where an expression is needed")
            if isinstance(b, ast.Expr):
                return copy.deepcopy(b.value)
            if not isinstance(b, ast.expr):
                raise Undefined("non-expression binding")
            return copy.deepcopy(b)
        return node

    def visit_Expr(self, node):
        if isinstance(node.value, ast.Name) and node.value.id in self.names:
            b = self.bound(node.value.id)
            if isinstance(b, ast.stmt):
                return copy.deepcopy(b)
        return self.generic_visit(node)

    def generic_visit(self, node):
        for field in ("name", "attr", "arg", "module", "asname"):
            val = getattr(node, field, None)
            if isinstance(val, str) and val in self.names:
                setattr(node, field, self.as_ident(val))
        return super().generic_visit(node)


def instantiate(repl: str, env: dict):
    """List of statements the replacement denotes for this match."""
    py, names = _tokenise(repl)
    if not py.strip():
        return []
    tree = ast.parse(py)
    for node in ast.walk(tree):
        # a wildcard spelled inside a string / bytes literal of the template: the statement does not say whether that is a wildcard or text
        if isinstance(node, ast.Constant) and isinstance(node.value, (str, bytes)):
            text = node.value if isinstance(node.value, str) else node.value.decode("latin-1")
            if any(name in text for name in names):
                raise Undefined("wildcard inside a literal of the replacement template")
    tree = _Inst(names, env).visit(tree)
    return tree.body


def _key(node):
    return (type(node).__name__, node.lineno, node.col_offset, node.end_lineno, node.end_col_offset)


class _Repl(ast.NodeTransformer):
    def __init__(self, mapping, drop):
        self.mapping, self.drop = mapping, drop
        self.used = 0

    def visit(self, node):
        if hasattr(node, "lineno"):
            k = _key(node)
            if k in self.drop:
                self.used += 1
                return None
            if k in self.mapping:
                self.used += 1
                new = self.mapping[k]
                if isinstance(node, ast.expr):
                    if len(new) != 1 or not isinstance(new[0], ast.Expr):
                        raise Undefined("expression replaced by a non-expression")
                    return new[0].value
                if isinstance(node, ast.stmt):
                    return new
                raise Undefined("unsupported node kind")
        return self.generic_visit(node)


def replace_nodes(source: str, replacements):
    """`replacements`: list of (matched nodes, replacement statements). Returns the expected module tree."""
    tree = ast.parse(source)
    mapping, drop = {}, set()
    for nodes, new in replacements:
        mapping[_key(nodes[0])] = new
        for extra in nodes[1:]:
            drop.add(_key(extra))
    t = _Repl(mapping, drop)
    tree = t.visit(tree)
    if t.used != len(mapping) + len(drop):
        raise Undefined("matched node not found again in a fresh parse")
    for holder in ast.walk(tree):
        for f in ("body", "orelse", "finalbody"):
            b = getattr(holder, f, None)
            if isinstance(b, list) and not b and f == "body" and not isinstance(holder, ast.Module):
                b.append(ast.Pass())
    return ast.fix_missing_locations(tree)


def normalised_dump(tree_or_text) -> str:
    if isinstance(tree_or_text, str):
        return ast.dump(ast.parse(tree_or_text))
    text = ast.unparse(tree_or_text)
    return ast.dump(ast.parse(text))


def textual_instantiation(repl: str, env: dict) -> str:
    """What plain text substitution of the printed bindings gives (the implementation's documented mechanism)."""
    import re

    # every wildcard of the template in one pass: text that was filled in is not looked at again (a binding may spell `{{y}}` inside a string)
    return re.sub(r"\{\{(\w+)\}\}", lambda m: env[m.group(1)][0] if m.group(1) in env else m.group(), repl)
