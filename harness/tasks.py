"""Generic worker-side tasks shared by several checks."""
from __future__ import annotations

import os
import time
import traceback
import warnings

warnings.filterwarnings("ignore", category=SyntaxWarning)
warnings.filterwarnings("ignore", category=DeprecationWarning)


def crash_info(exc: BaseException) -> dict:
    """Exception class + innermost pyrefact frame + outermost rule frame ("call site")."""
    repo = os.environ.get("VERIF_REPO", "/repo")
    frames = traceback.extract_tb(exc.__traceback__)
    inner = None
    outer_rule = None
    chain = []
    for fr in frames:
        fn = fr.filename
        if fn.startswith(repo + os.sep) and "/pyrefact/" in fn:
            mod = os.path.basename(fn)[:-3]
            chain.append(f"{mod}.{fr.name}")
            inner = f"{mod}.{fr.name}"
            if outer_rule is None and mod not in ("main", "processing", "core") and fr.name not in ("wrapper",):
                outer_rule = f"{mod}.{fr.name}"
    return {"exc": type(exc).__name__, "msg": str(exc)[:300], "inner": inner, "rule": outer_rule,
            "chain": chain[-8:], "line": frames[-1].lineno if frames else None}


def format_one(text: str, options: dict | None = None) -> dict:
    from . import hooks

    m = hooks.mods()
    opts = dict(options or {})
    if "preserve" in opts:
        opts["preserve"] = frozenset(opts["preserve"])
    t0 = time.process_time()
    try:
        out = m["main"].format_code(text, **opts)
        return {"out": out, "cpu": time.process_time() - t0}
    except BaseException as exc:
        if type(exc).__name__ == "CpuBudget":
            raise
        info = crash_info(exc)
        info["cpu"] = time.process_time() - t0
        return {"out": None, "crash": info}


def w_format(batch):
    """[{text, options}] -> [{out | crash}]"""
    return [format_one(item["text"], item.get("options")) for item in batch]
