"""Step traces of a format_code call (H-rule) and attribution of a behavioural divergence to a step."""
from __future__ import annotations

from . import hooks, oracle_exec


def traced_format(text: str, options: dict | None = None):
    """Run format_code with H-rule on; returns (out | None, crash-info | None, top-level text-changing steps)."""
    from . import tasks

    m = hooks.mods()
    hooks.install_rule_hooks()
    R = hooks.REC
    R.reset()
    res = tasks.format_one(text, options)
    steps = [s for s in R.steps if s["depth"] == 0 and s["out"] is not None and s["out"] != s["in"]]
    return res.get("out"), res.get("crash"), steps


def attribute(steps, base=None, cpu_s=3.0):
    """First step whose output behaves differently from its own input (both executed). Returns dict or None."""
    cache = {}

    def run(text):
        """Behaviour of an intermediate text. Rules may emit `heapq.` / `collections.` / `np.` and leave the import to the pipeline's later
        add_missing_imports step, so a text that fails with a NameError is judged with that step applied."""
        if text not in cache:
            res = oracle_exec.run_program(text, cpu_s)
            if res[0] == "exc:NameError":
                try:
                    again = hooks.mods()["fixes"].add_missing_imports(text)
                except Exception:
                    again = text
                if again != text:
                    res2 = oracle_exec.run_program(again, cpu_s)
                    if res2[0] != "exc:NameError":
                        res = res2
            cache[text] = res
        return cache[text]

    for s in steps:
        before = run(s["in"])
        if before[0] != "ok":
            continue
        after = run(s["out"])
        if not oracle_exec.agrees(before, after) and s["rule"].startswith("processing.chain["):
            # a chained step: find the component rule that alone reproduces a divergence on the step's input
            rf = hooks.rule_functions()
            for part in s["rule"][len("processing.chain["):-1].split("+"):
                key = next((k for k in rf if k[1] == part), None)
                if key is None:
                    continue
                try:
                    out = hooks.call_rule(rf[key], s["in"])
                except Exception:
                    continue
                if out != s["in"]:
                    a2 = run(out)
                    if not oracle_exec.agrees(before, a2):
                        return {"rule": f"{key[0]}.{key[1]}", "before": s["in"], "after": out, "before_out": before[1][-400:], "after_status": a2[0], "after_out": a2[1][-400:]}
        if not oracle_exec.agrees(before, after):
            return {"rule": s["rule"], "before": s["in"], "after": s["out"], "before_out": before[1][-400:],
                    "after_status": after[0], "after_out": after[1][-400:]}
    return None
