"""Step traces of a format_code call (H-rule) and attribution of a behavioural divergence to a step."""
from __future__ import annotations

from . import hooks, oracle_exec


def traced_format(text: str, options: dict | None = None):
    """Run format_code with H-rule on; returns (out | None, crash-info | None, top-level text-changing steps)."""
    from . import tasks

    m = hooks.mods()
    hooks.install_rule_hooks()
    R = hooks.REC
    R.reset()
    res = tasks.format_one(text, options)
    steps = [s for s in R.steps if s["depth"] == 0 and s["out"] is not None and s["out"] != s["in"]]
    return res.get("out"), res.get("crash"), steps


def attribute(steps, base=None, cpu_s=3.0):
    """First step whose output behaves differently from its own input (both executed). Returns dict or None."""
    cache = {}

    def run(text):
        if text not in cache:
            cache[text] = oracle_exec.run_program(text, cpu_s)
        return cache[text]

    for s in steps:
        before = run(s["in"])
        if before[0] != "ok":
            continue
        after = run(s["out"])
        if not oracle_exec.agrees(before, after):
            return {"rule": s["rule"], "before": s["in"], "after": s["out"], "before_out": before[1][-400:],
                    "after_status": after[0], "after_out": after[1][-400:]}
    return None
