"""Three-valued verdicts, known-findings handling, evidence and replay files."""
from __future__ import annotations

import json
import re
import sys
import time

from . import env

import os
import pathlib

FINDINGS_FILE = env.VERIF / "KNOWN_FINDINGS.txt"


def out_dir(kind: str) -> pathlib.Path:
    """evidence/ and replays/ live in /verif unless redirected (mutant self-tests must not overwrite evidence)."""
    base = os.environ.get("VERIF_OUT_DIR")
    return (pathlib.Path(base) if base else env.VERIF) / kind
_LINE = re.compile(r"^finding:\s+property=(C\d+)\s+key=([\w.\-]+)\s*::\s*(.*)$")


def load_findings(prop: str) -> dict:
    """{key: description} of the open findings listed for this property."""
    out = {}
    if FINDINGS_FILE.exists():
        for line in FINDINGS_FILE.read_text().splitlines():
            m = _LINE.match(line.strip())
            if m and m.group(1) == prop:
                out[m.group(2)] = m.group(3)
    return out


def _detail(rec):
    """The detail of a violation record as a dict (some monitors attach a plain sentence)."""
    d = rec.get("detail")
    return d if isinstance(d, dict) else ({"note": d} if d else {})


class Verdict:
    def __init__(self, prop: str, level: str = "exploration"):
        from . import classify

        self.prop = prop
        self.level = level
        self.t0 = time.time()
        self.listed = load_findings(prop)
        self.classifiers = {k: classify.CLASSIFIERS[k] for k in self.listed if k in classify.CLASSIFIERS}
        self.missing_classifiers = [k for k in self.listed if k not in classify.CLASSIFIERS]
        self.hits = {k: 0 for k in self.listed}
        self.hit_examples = {}
        self.unlisted = []
        self.unlisted_keys = set()
        self.inconclusive = []
        self.counters = {}

    # ------------------------------------------------------------------ counting helpers
    def count(self, name: str, n: int = 1):
        self.counters[name] = self.counters.get(name, 0) + n

    # ------------------------------------------------------------------ violations
    def classify(self, rec: dict):
        for key, fn in self.classifiers.items():
            try:
                if fn(rec):
                    return key
            except Exception:
                continue
        return None

    def add(self, rec: dict):
        """Register an observed violation; returns the finding key when it is a listed one."""
        rec = dict(rec)
        rec.setdefault("property", self.prop)
        if not isinstance(rec.get("detail"), dict):  # some monitors attach a plain sentence: everything downstream reads a dict
            rec["detail"] = {"note": str(rec["detail"])} if rec.get("detail") else {}
        key = self.classify(rec)
        if key is not None:
            self.hits[key] += 1
            self.hit_examples.setdefault(key, _abridge(rec))
            return key
        dedup = (rec.get("kind"), rec.get("rule"), env.digest(json.dumps(rec.get("replay", rec), sort_keys=True, default=str)))
        if dedup not in self.unlisted_keys:
            self.unlisted_keys.add(dedup)
            self.unlisted.append(rec)
        return None

    def extend(self, recs):
        for r in recs or ():
            self.add(r)

    def inconclusive_because(self, reason: str):
        if reason not in self.inconclusive and len(self.inconclusive) < 12:
            self.inconclusive.append(reason)

    # ------------------------------------------------------------------ finish
    def finish(self, coverage: dict, assumptions=()) -> int:
        tier, seed = env.tier(), env.seed()
        coverage = dict(coverage)
        coverage.setdefault("evaluations", 0)
        coverage.setdefault("distinct_nontrivial", 0)
        coverage.setdefault("rule", "")
        coverage.setdefault("samples", [])
        # keys that the evidence schema reserves for integers: a breakdown goes under <key>_breakdown, the count stays under the key
        for reserved in ("programs", "states", "transitions", "obligations", "discharged", "disagreements_checked", "traces_validated_against_impl"):
            val = coverage.get(reserved)
            if isinstance(val, dict):
                coverage[reserved + "_breakdown"] = val
                n = val.get(reserved)
                if isinstance(n, int) and not isinstance(n, bool) and n >= 0:
                    coverage[reserved] = n
                else:
                    del coverage[reserved]
            elif val is not None and (not isinstance(val, int) or isinstance(val, bool) or val < 0):
                coverage[reserved + "_detail"] = coverage.pop(reserved)
        coverage["counters"] = dict(sorted(self.counters.items()))
        coverage["known_findings_hit"] = {k: v for k, v in self.hits.items()}
        coverage["known_finding_examples"] = self.hit_examples
        stale = [k for k, v in self.hits.items() if v == 0]
        if stale:
            coverage["stale_findings"] = stale
        if self.inconclusive:
            coverage["inconclusive_reasons"] = self.inconclusive
        if coverage["evaluations"] < 1 or coverage["distinct_nontrivial"] < 2 or not coverage["samples"]:
            self.inconclusive.append("the deciding monitor observed too little (see coverage)")
            coverage["inconclusive_reasons"] = self.inconclusive

        for key in self.missing_classifiers:
            print(f"WARNING: finding key={key} listed for {self.prop} has no classifier; it suppresses nothing")
        for key, text in self.listed.items():
            print(f"KNOWN-FINDING: property={self.prop} key={key} hits={self.hits[key]} {text}")

        replay_paths = []
        shown_kinds = {}
        for rec in self.unlisted:
            kind = (rec.get("kind"), _detail(rec).get("attributed_rule") or rec.get("rule"))
            shown_kinds[kind] = shown_kinds.get(kind, 0) + 1
            if shown_kinds[kind] > 2 or len(replay_paths) >= 150:
                continue
            d = env.digest(json.dumps(rec, sort_keys=True, default=str))
            path = out_dir("replays") / self.prop / f"{d}.json"
            env.dump_json(path, rec)
            replay_paths.append(path)
            brief = _brief(rec)
            print(f"VIOLATION property={self.prop} replay={path}")
            print(f"  kind={rec.get('kind')} rule={rec.get('rule')} {brief}")
        if os.environ.get("VERIF_ALL_VIOLATIONS"):  # development aid: one line per unlisted record
            for rec in self.unlisted:
                d = _detail(rec)
                print(f"  UNLISTED kind={rec.get('kind')} rule={d.get('attributed_rule') or rec.get('rule')} what={str(d.get('shape') or d.get('label') or d.get('idioms') or '')[:160]}")
        coverage["unlisted_violations"] = len(self.unlisted)
        evidence = {
            "property_id": self.prop,
            "tier": tier,
            "seed": seed,
            "level": self.level,
            "coverage": coverage,
            "assumptions": list(assumptions),
            "wall_s": round(time.time() - self.t0, 2),
            "violations": len(self.unlisted),
        }
        env.dump_json(out_dir("evidence") / f"{self.prop}.json", evidence)
        if self.unlisted:
            kinds = {}
            for rec in self.unlisted:
                k = f"{rec.get('kind')}/{(rec.get('detail') or {}).get('attributed_rule') or rec.get('rule')}"
                kinds[k] = kinds.get(k, 0) + 1
            print("  unlisted by kind/rule: " + ", ".join(f"{k}={n}" for k, n in sorted(kinds.items(), key=lambda t: -t[1])[:30]))
            print(f"RESULT property={self.prop} violated unlisted={len(self.unlisted)} "
                  f"evaluations={coverage['evaluations']} wall_s={evidence['wall_s']}")
            return 1
        if self.inconclusive:
            for r in self.inconclusive:
                print(f"INCONCLUSIVE property={self.prop} reason={r}")
            return 2
        print(f"RESULT property={self.prop} held evaluations={coverage['evaluations']} "
              f"distinct_nontrivial={coverage['distinct_nontrivial']} wall_s={evidence['wall_s']}")
        return 0


def _abridge(obj, limit=600):
    if isinstance(obj, str):
        return obj if len(obj) <= limit else obj[:limit] + f"...[{len(obj)} chars]"
    if isinstance(obj, dict):
        return {k: _abridge(v, limit) for k, v in list(obj.items())[:40]}
    if isinstance(obj, (list, tuple)):
        return [_abridge(v, limit) for v in obj[:12]]
    return obj


def _brief(rec):
    parts = []
    for k in ("detail", "input", "before"):
        if k in rec:
            s = rec[k] if isinstance(rec[k], str) else json.dumps(rec[k], default=str)
            parts.append(f"{k}={s[:300]!r}")
    return " ".join(parts)


def abridge(obj, limit=600):
    return _abridge(obj, limit)


def pool_failures(v: Verdict, replies, what="case"):
    """Account for worker-level failures: crash/watchdog are inconclusive material, exc is a harness bug."""
    bad = 0
    for r in replies:
        st = r.get("status")
        if st == "ok":
            continue
        bad += 1
        v.count(f"worker_{st}")
        if st in ("exc", "harness_error"):
            v.inconclusive_because(f"harness error in {what}: {r.get('exc')}: {r.get('msg')} {str(r.get('tb'))[-800:]}")
    return bad


def collect_violations(value):
    """Violations out of a worker reply value (a dict with 'violations' or a list of such dicts)."""
    out = []
    if isinstance(value, dict):
        out.extend(value.get("violations") or [])
    elif isinstance(value, list):
        for x in value:
            out.extend(collect_violations(x))
    return out


def run_witnesses(v: Verdict, p, cpu_s: float = 300.0):
    """Replay the stored witness of every open finding of this property through the same monitors.

    A witness that no longer violates marks the finding stale (maybe repaired); a witness that violates but is
    not recognised by its classifier becomes an unlisted violation like any other.
    """
    import json as _json

    n = 0
    for key in v.listed:
        path = env.VERIF / "findings" / f"{key}.json"
        if not path.exists():
            continue
        try:
            w = _json.loads(path.read_text())
        except ValueError:
            continue
        for rp in w.get("replays", [w.get("replay")] if w.get("replay") else []):
            rep = p.map(rp["fn"], [rp["arg"]], cpu_s=cpu_s)[0]
            n += 1
            if rep.get("status") == "ok":
                v.extend(collect_violations(rep["value"]))
            else:
                v.count("witness_" + str(rep.get("status")))
    v.count("witnesses_replayed", n)
    return n


def generic_replay(prop: str, rec: dict) -> int:
    """--replay: run the recorded worker call in-process and report whether it still violates."""
    import importlib

    fn = rec["replay"]["fn"]
    modname, _, attr = fn.partition(":")
    value = getattr(importlib.import_module(modname), attr)(rec["replay"]["arg"])
    v = Verdict(prop)
    v.extend(collect_violations(value))
    same = [u for u in v.unlisted if u.get("kind") == rec.get("kind")] or v.unlisted
    for u in same[:5]:
        print("reproduced:", u.get("kind"), u.get("rule"), _brief(u)[:1500])
    if same:
        print(f"VIOLATION property={prop} replay=(replayed)")
        return 1
    known = {k: n for k, n in v.hits.items() if n}
    print("not reproduced" + (f" (matches known findings {known})" if known else ""))
    return 0
