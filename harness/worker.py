"""Worker process: imports pyrefact from the working tree and runs task functions.

Protocol: one JSON object per line on a private duplicate of stdin/stdout. fd 0 is re-pointed at
/dev/null and fd 1 at /dev/null so that neither the code under test nor executed programs can
disturb the protocol (an `input()` executed by constant folding sees EOF).
"""
from __future__ import annotations

import importlib
import json
import os
import resource
import signal
import sys
import time
import traceback


class CpuBudget(BaseException):
    """Raised inside the worker when a case exceeds its CPU-time budget."""


def _on_timer(signum, frame):
    raise CpuBudget()


def main() -> int:
    rin = os.fdopen(os.dup(0), "r", encoding="utf-8")
    wout = os.fdopen(os.dup(1), "w", encoding="utf-8")
    devnull_r = os.open(os.devnull, os.O_RDONLY)
    devnull_w = os.open(os.devnull, os.O_WRONLY)
    os.dup2(devnull_r, 0)
    os.dup2(devnull_w, 1)
    if os.environ.get("VERIF_WORKER_STDERR", "") != "keep":
        os.dup2(devnull_w, 2)
    sys.stdin = open(0, "r", closefd=False)
    sys.stdout = open(1, "w", closefd=False)

    repo = os.environ.get("VERIF_REPO", "/repo")
    verif = os.path.dirname(os.path.dirname(os.path.abspath(__file__)))
    for p in (verif, repo):
        if p in sys.path:
            sys.path.remove(p)
    sys.path.insert(0, verif)
    sys.path.insert(0, repo)
    deps = os.path.join(verif, ".deps")
    if os.path.isdir(deps) and deps not in sys.path:
        sys.path.append(deps)

    as_limit = int(os.environ.get("VERIF_AS_LIMIT", str(6 << 30)))
    try:
        resource.setrlimit(resource.RLIMIT_AS, (as_limit, as_limit))
    except (ValueError, OSError):
        pass
    sys.setrecursionlimit(int(os.environ.get("VERIF_RECURSION", "3000")))
    signal.signal(signal.SIGPROF, _on_timer)

    cwd = os.environ.get("VERIF_WORKER_CWD")
    if cwd:
        os.makedirs(cwd, exist_ok=True)
        os.chdir(cwd)

    funcs = {}
    for line in rin:
        line = line.strip()
        if not line:
            continue
        task = json.loads(line)
        if task.get("op") == "exit":
            break
        name = task["fn"]
        t0 = time.process_time()
        reply = {"i": task.get("i")}
        try:
            if name not in funcs:
                modname, _, attr = name.partition(":")
                funcs[name] = getattr(importlib.import_module(modname), attr)
            cpu = float(task.get("cpu_s") or 0)
            if cpu > 0:
                signal.setitimer(signal.ITIMER_PROF, cpu)
            try:
                value = funcs[name](task.get("arg"))
            finally:
                signal.setitimer(signal.ITIMER_PROF, 0)
            reply.update(status="ok", value=value)
        except CpuBudget:
            reply.update(status="cpu_budget", tb="".join(traceback.format_stack()[-3:]))
        except BaseException as exc:  # harness-level failure of the task function itself
            reply.update(
                status="exc",
                exc=type(exc).__name__,
                msg=str(exc)[:2000],
                tb=traceback.format_exc()[-6000:],
            )
        reply["cpu"] = round(time.process_time() - t0, 4)
        try:
            wout.write(json.dumps(reply, default=repr) + "\n")
            wout.flush()
        except BrokenPipeError:
            break
        if reply["status"] == "cpu_budget":
            break  # state may be inconsistent; parent respawns
    return 0


if __name__ == "__main__":
    sys.exit(main())
