#!/venv/bin/python
"""Regenerates the generated tables of DESIGN.md §9 (between <!-- BEGIN GENERATED:x --> / <!-- END GENERATED:x --> markers) from
KNOWN_FINDINGS.txt and selftest_results.json (written by `tools/selftest.py --write`)."""
import collections
import json
import pathlib
import re

VERIF = pathlib.Path(__file__).resolve().parent.parent


def findings_tables():
    fixed, open_ = collections.defaultdict(list), collections.defaultdict(list)
    for line in (VERIF / "KNOWN_FINDINGS.txt").read_text().splitlines():
        m = re.match(r"fixed: property=(C\d+) (\w+) (.*)", line)
        if m:
            fixed[m.group(2)].append((m.group(1), m.group(3)))
        m = re.match(r"finding: property=(C\d+) key=(\S+) :: (.*)", line)
        if m:
            open_[m.group(2)].append((m.group(1), m.group(3)))
    per_prop = collections.Counter(p for v in fixed.values() for p, _ in v)
    out = ["| property | repairs recorded |", "|---|---|"]
    for p in sorted(per_prop):
        out.append(f"| {p} | {per_prop[p]} |")
    out.append(f"| **distinct `fix:` commits** | **{len(fixed)}** |")
    t1 = "\n".join(out)
    out = ["| key | properties | mechanism (short) |", "|---|---|---|"]
    for k in sorted(open_):
        props = ", ".join(sorted({p for p, _ in open_[k]}))
        text = open_[k][0][1]
        text = text if len(text) < 230 else text[:227] + "..."
        out.append(f"| `{k}` | {props} | {text.replace('|', '/')} |")
    return t1, "\n".join(out)


def kill_matrix():
    f = VERIF / "selftest_results.json"
    if not f.exists():
        return "(run `tools/selftest.py --tests --write`)"
    d = json.loads(f.read_text())
    rows = d["rows"]
    out = [f"Repository HEAD {d['repo_head']}, {d['tier']} tier of the targeted check, pinned tests run against every change.", "",
           "| change | property | result | what it does |", "|---|---|---|---|"]
    for r in rows:
        res = r["result"]
        short = "caught" if "CAUGHT" in res else ("neutralised" if "neutralised" in res else ("does not apply" if "not apply" in res else "MISSED"))
        kinds = " ".join(sorted(set(re.findall(r"kind=(\w+)", res))))
        tests = (re.search(r"tests=([^k]*?)(?: kind=|$)", res) or [None, ""])[1].strip()
        out.append(f"| `{r['change']}` | {r['property']} | {short}{' (' + kinds + ')' if kinds else ''}{'; tests: ' + tests if tests and tests != 'skipped' else ''} | {r['what'].replace('|', '/')[:160]} |")
    n = sum(1 for r in rows if "CAUGHT" in r["result"])
    out.append("")
    out.append(f"{n} of {sum(1 for r in rows if 'neutralised' not in r['result'])} (change, property) pairs caught.")
    return "\n".join(out)


def main():
    p = VERIF / "DESIGN.md"
    s = p.read_text()
    t1, t2 = findings_tables()
    for name, text in (("repairs", t1), ("findings", t2), ("killmatrix", kill_matrix())):
        s = re.sub(rf"(<!-- BEGIN GENERATED:{name} -->\n).*?(<!-- END GENERATED:{name} -->)", lambda m: m.group(1) + text + "\n" + m.group(2), s, flags=re.S)
    p.write_text(s)
    print("DESIGN.md tables regenerated")


if __name__ == "__main__":
    main()
