#!/venv/bin/python
"""Writes /verif/MANIFEST.json from the table below (kept here so the manifest is always schema-valid)."""
import json
import pathlib
import sys

VERIF = pathlib.Path(__file__).resolve().parent.parent

CHECKS = {
    "C10": dict(
        technique="runtime monitor: H-sched event log (yielded/scheduled/applied rewrites of every pass) checked offline against an executable model of the scheduling specification; marker-rewrite workloads with fault injection",
        category="exploration",
        text="Every scheduling pass observed (synthetic marker rules through processing.fix/chain, 15 % of them with a rule that raises after it has yielded some of its rewrites: random, plus a bounded configuration space enumerated completely in the thorough tier; and every pass of the real rules inside format_code on the repository examples) is judged by the five clauses of the statement: all-or-nothing per transaction (nothing at all of a rule that raised before its generator was done), no overlapping scheduled ranges, drops only for a permitted reason, rollback of unparsable passes, ignored lines untouched; the pass result must equal the reference splice of the scheduled rewrites. Held on the executions produced, not a proof.",
        design_ref="DESIGN.md §4 C10",
        note="Trusts core.get_charnos for the ranges the scheduler sees (span correctness is C13) and Python's ast.parse as the validity judge; implicit transactions are ordered by yield position. A rollback is also judged against the plain splice of the schedule (the implementation misplacing a rewrite must not justify its own rollback).",
    ),
    "C12": dict(
        technique="runtime differential monitor: the real matcher (match_template / finditer) runs beside an independent, complete reference matcher working from the pattern string; bounded exhaustive enumeration of quantifier lists + patterns abstracted from real code + self-match",
        category="exploration",
        text="All list templates up to length 3 (4 thorough) over 11 element kinds x all element sequences up to length 5 in four list contexts are enumerated completely and every (template, sequence) verdict of the real matcher is compared with the reference; finditer's occurrence set is compared with the reference search for patterns abstracted from repository examples and standard-library files (single nodes and statement sequences, with planted repeated wildcards and a fixed hostile set); every statement/expression of the corpus must match the template compiled from its own text. Held on the pairs observed; exhaustive only for the stated bound.",
        design_ref="DESIGN.md §4 C12",
        note="The reference adopts the pinned tests' reading of named quantified wildcards (all repetitions print identically); wildcards only in positions the pattern compiler supports; ASCII sources (spans are C13's).",
    ),
    "C13": dict(
        technique="runtime post-condition monitor on every Match object + literal API relations + CLI subprocess, against an independent span computation (UTF-8 byte columns, tokenizer line splitting, decorators)",
        category="exploration",
        text="Every Match produced by finditer over hostile layout variants of real sources (non-ASCII before the match, CRLF/CR, form feeds, unicode line separators in literals and comments, tabs, no trailing newline, indented fragments, decorated/multi-line nodes) is checked for range, string == slice, slice == complete node text, line/column; findall/search/match/fullmatch are compared literally with finditer; the command-line finder is run as a subprocess and its printed locations compared.",
        design_ref="DESIGN.md §4 C13",
        note="Complete node text = ast.get_source_segment semantics extended to decorators; lines split as Python's tokenizer does; result order is not part of C13 (see C06).",
    ),
    "C14": dict(
        technique="runtime monitor: subn() observed through the scheduler log (applied set) and compared with an AST-level reference substitution (tree substitution of bindings, rebuilt module tree); line-level and ignore-comment post-conditions; CLI replace subprocess",
        category="exploration",
        text="For generated and hostile (pattern, replacement, source, count) tuples: no occurrence => byte-identical result; every rewritten range is a reference occurrence; no occurrence is skipped without a permitted reason; count bounds the replacements; the result tree equals the source tree with exactly the applied matches replaced by the tree-instantiated template; untouched lines and ignore-comment lines survive verbatim; sub(p, p, s) preserves the tree; the CLI writes what sub returns.",
        design_ref="DESIGN.md §4 C14",
        note="Which of several overlapping occurrences wins is left open (read from the scheduler log); trees compared after an unparse/parse round trip; a pass whose candidate does not parse is a rollback (C10).",
    ),
    "C15": dict(
        technique="runtime differential monitor: core.literal_value beside Python's own eval under an effect sanitizer (audit hook + stdout capture), cross-process re-evaluation under another hash seed; consumer-level execution oracle on programs whose conditions are constant expressions",
        category="exploration",
        text="All depth-1 expressions over 25 literal atoms (unary, 13 binary, 8 comparison, and/or, singleton identity) are enumerated completely; every lower-case builtin is called with 17 literal argument vectors; constant-receiver method calls, keyword/starred calls, process-dependent and effectful expressions are fixed sets; 40k (300k thorough) random expressions of depth 2-4. literal_value must return exactly eval's value (type and canonical repr), raise only ValueError, and cause no effect; folded values containing calls or sets are re-evaluated in a process with another PYTHONHASHSEED. 1.6k (12k) programs built from 10 condition templates go through the folding rules and format_code and are executed before/after.",
        design_ref="DESIGN.md §4 C15",
        note="Reference = CPython 3.12 eval of the same text; identity between non-singleton literals excluded; divergences attributed to rules that do not consume constant evaluation are left to C01/C02.",
    ),
    "C17": dict(
        technique="runtime truth-table monitor: formulas wrapped in functions go through each condition-rewriting rule; the rewritten function is read back from the rule's output and both versions are evaluated under every valuation of a box containing all constants",
        category="exploration",
        text="All two-atom and/or formulas over one variable (atoms v op c / c op v, 6 operators, constants 0..3, 0..5 thorough) are enumerated completely, plus two-variable and random deeper formulas; each is also embedded in 12 statement shapes that force negation (swap_if_else, fix_if_return, early_continue, De Morgan, negated comparisons); all range(a[,b[,c]]) comprehensions with one or two constant filters in a box and ~900 sum/len expressions exercise range folding and closed forms. Every rewritten function's value (or exception class) is compared with the original's for every valuation in [-2, 8]^k; a sample also goes through format_code(safe=True).",
        design_ref="DESIGN.md §4 C17",
        note="Integers only; == on values; the monitor sees exactly what the rule emitted (read back from its output).",
    ),
    "C16": dict(
        technique="runtime trace monitor: statement shapes instrumented with effectful probes are executed under all valuations of their unknown conditions before and after each consumer rule; is_blocking / has_side_effect probed directly in their sound direction",
        category="exploration",
        text="6.7k enumerated shapes of nesting depth <= 2 (if/elif/else, while/for with else, with, try/except/else/finally, return, raise, break, continue, assert over constant and unknown conditions; all in thorough, a 1.5k sample in quick), ~460 pointless-statement candidates (an effectful call buried in comprehensions, conditional expressions, f-strings, subscripts, bool-ops, ...; calls that look pure by name only: a decorated function, a class with an effectful base, metaclass or __new__, a local function or parameter named like a pure module function, the method name of a constant called as a function in its own arguments; twenty operations on an object whose special methods log) and random depth-3 shapes are each followed by an observable statement; the trace (probe ids, return value, exception class) under all 24 valuations must be unchanged by delete_unreachable_code, delete_pointless_statements, remove_redundant_else, swap_if_else, breakout_common_code_in_ifs, remove_dead_ifs and six more rules, and by format_code(safe=True) with step attribution.",
        design_ref="DESIGN.md §4 C16",
        note="Unknowns range over {False, True} and {[], [1], [1, 2]}; probes capped at 40 events and spinning loops cut by a CPU timer (same verdict on both sides).",
    ),
    "C03": dict(
        technique="runtime post-condition monitor (ast.parse) on format_code, on every rule step inside the pipeline (H-rule) and on every pipeline rule alone; fault injection at the scheduler and direct-edit APIs; complete fault enumeration of format_file's write guard observed through an audit hook (open-for-write events) and file metadata; kernel-level write faults (RLIMIT_FSIZE lowered to a fraction of the new content, EFBIG) injected while format_file writes, file read back afterwards",
        category="fault_enumeration",
        text="Valid inputs (construct zoo x positions incl. indented fragments, repository examples, standard-library files) go through format_code under 7 option vectors with every rule call inside checked (~100k steps per quick run) and through each of the 85 pipeline rules alone; sub() on generated pattern triples; replacements that would break the syntax are injected through _replace_nodes / alter_code / remove_nodes / fix / chain. The write guard is decided by enumerating all 120 combinations of {file content: valid, invalid, skip_file, no trailing newline, empty} x {text returned by the formatter: same, valid changed, invalid, whitespace-only change, empty, invalid extension} x safe x file name with format_code stubbed, plus real runs: a valid file must never become invalid, an unchanged file must not be opened for writing nor reported as changed. 112 (230) write-fault cases: six (content, result) pairs x limits {0, 1, third, half, all but one byte, none} x safe/file name, plus real examples; the write is refused past the limit, format_file may raise, the file must still be valid.",
        design_ref="DESIGN.md §4 C03",
        note="Validity = ast.parse of CPython 3.12 (indented fragments after dedent); the write-guard enumeration is complete for the stated factor levels, the validity part is sampling.",
    ),
    "C04": dict(
        technique="runtime monitor at the API boundary in isolated worker processes: exception capture (BaseException), CPU-time budget (RLIMIT-style timers, process time), sys.monitoring RAISE events for MemoryError under a 4 GiB address-space cap (an allocation the tool swallows would otherwise leave no trace), non-whitespace hand-back check for invalid input, effect sanitizer",
        category="exploration",
        text="format_code is called on a zoo of 49 constructs covering Python 3.12 syntax in 9 positions (first, last, without trailing newline, nested in def/class, last in an if, indented fragment with spaces and tabs), pairs of constructs, 70 adversarial constant expressions in 16 condition templates, ~120 degenerate strings (empty, BOM, NUL, unterminated, deep nesting, long lines), 700 (6000) character-level mutants, repository examples and standard-library files, under 7 option vectors; 66 texts that import (star, from, plain, inside a function) from 11 hostile modules lying beside them in the worker's directory (syntax error, latin-1 bytes, a null byte, empty, BOM, __all__ = 5, a dynamic __all__, a module that raises, self- and mutually star-importing modules, a package whose sub-module is broken). Any exception, a result that is not a string, CPU time above max(20 s, 400 s/kB), a dead worker, an effect, or an invalid input not handed back modulo whitespace is a violation.",
        design_ref="DESIGN.md §4 C04",
        note="Bounded time is a CPU budget two orders of magnitude above the measured cost; wall-clock watchdogs only yield inconclusive.",
    ),
    "C11": dict(
        technique="runtime invariant monitor at the layout-stage hooks (H-stage): AST equality of every stage call's input and output inside real pipeline runs and on direct calls, with the in-line expandtabs stage bracketed by the API input and the first hooked stage",
        category="exploration",
        text="A literal-torture generator (16 contents with tabs, blank-line runs, trailing blanks, long lines, '#', odd inner indentation x 6 prefixes x 4 quote styles x 8 statement contexts = ~2.2k sources, 900 sampled in quick), 28 layout oddities, the construct zoo, repository examples and standard-library files run through format_code with line lengths 60/79/100/200; ~34k stage calls per quick run are compared (tree of output == tree of input, doc-string whitespace normalised; for the final whitespace-diff minimisation tree(result) == tree(new)).",
        design_ref="DESIGN.md §4 C11",
        note="Tolerated: whitespace inside bare string statements (doc-strings to black) and the AnnAssign.simple flag black changes by dropping redundant parentheses.",
    ),
    "C05": dict(
        technique="runtime invariant at the cache hooks (every return of core.parse / core.compile_template is compared with a fresh parse / the first serialisation; caches audited after every call for attribution) + replay of requests after random call histories against one-shot fresh-interpreter references + every rule twice in a row, and again after the parsed program was evicted from the cache and the heap has moved (tie inputs, statements squeezed onto one line, small on-disk worlds for the import rules)",
        category="exploration",
        text="160 (900) random histories of 3-14 format_code / single-rule / sub / findall calls (35% on the request's own text, other options, other inputs) are each followed by a request whose result must equal, byte for byte, the result of the same request in a fresh interpreter; each of the 85 pipeline rules is called twice in a row on ~190 inputs (repository examples, construct zoo, fixed mutation-prone texts) and must return the same text both times and the same as a fresh process; 45 (150) sibling modules - the same text with one function made effectful, trivial or removed, formatted one after the other in both orders - and seven hand-written sibling pairs (a remembered verdict about an unchanged definition); during all of it ~9M cache returns per quick run are checked for fidelity and the parse cache is audited after each call so that a corruption is attributed to the call that caused it.",
        design_ref="DESIGN.md §4 C05",
        note="Fidelity = ast.dump(include_attributes=True) equality with a fresh ast.parse of the cache key; private attributes rules may attach to nodes are not part of a tree.",
    ),
    "C06": dict(
        technique="runtime replay of identical requests under perturbed process state (PYTHONHASHSEED x PYTHONMALLOC x heap junk shifting id()-ordered sets) and perturbed schedules (worker count x shuffled file list x injected per-file delays via a wrapper around format_file in the pool workers); byte comparison with the n_cores=1 run and an independent sequential re-implementation; inputs constructed so that two candidates tie under the tool's own sort key, and the same request repeated inside one process after the heap has moved",
        category="exploration",
        text="~1000 requests (format_code under 4 option vectors on inputs where several candidates compete inside set-iterating code and on repository examples; findall / search / sub(count=1) with statement-sequence patterns; synthetic colliding insertions through processing.chain) are executed in four process variants and must give identical bytes. Five (14) generated trees of 12-30 files in nested folders (files needing two passes, already clean files, skip_file, invalid files, __init__.py, client files passed as preserved) are formatted with n_cores in {1, 2, 5, 16, ...}, shuffled file lists, seeded 0-150 ms delays, safe on/off, 1 or 5 passes; tree and return value must equal the sequential run and the reference bookkeeping; the evidence reports the distinct completion orders actually produced.",
        design_ref="DESIGN.md §4 C06",
        note="Linux fork start method; ASLR adds address variation on top of the explicit variants; a nondeterminism that no variant provokes, or for which no input makes two candidates tie, stays unobserved (six such defects were found by reviewers and are repaired, DESIGN.md 9.6).",
    ),
    "C09": dict(
        technique="runtime trace check: the sequence x, f(x), ..., f^6(x) of real format_code applications is inspected for a fixed point by the fifth application and for revisited texts; the inner fixpoint loop is observed through H-rule",
        category="exploration",
        text="Repository examples, the construct zoo in several positions, 15 hand-written antagonistic inputs (if/else orientation vs early return vs redundant else, literal vs comprehension forms, blank-line rules vs black, import rules) and random concatenations of three of them, eight modules whose nested call statements end just below and above the line limit (60 / 79 / 100 / 120 columns, 1-12 blocks deep, formatted with that limit), and standard-library files are each formatted six times in a row under 7 option vectors; x5 must equal x6 and no text may reappear after it was left. The histogram of first fixed indices and the number of inner _multi_run_fixes rounds are evidence.",
        design_ref="DESIGN.md §4 C09",
        note="Bounded progress restated from the statement: fixed point within five applications (the tool's MAX_MODULE_PASSES); includes branch pairs for the if/else orientation heuristic and a module with more sites than 5 x 25 passes of a one-site-per-pass rule.",
    ),
    "C20": dict(
        technique="runtime post-condition monitor: literal line comparison of annotated physical lines before/after format_code with attribution of a lost line to the pipeline step (H-rule) and back-end (H-direct / H-sched) that dropped it; skip_file through library, format_file (audit hook: no open-for-write) and the --from-stdin subprocess",
        category="exploration",
        text="Programs on which rules fire (repository examples, antagonistic inputs, construct zoo) are annotated with `# pyrefact: ignore` on every annotatable physical line in turn (tokenize decides annotatability; 7 lines per program sampled in quick) and on random subsets, formatted under 4 option vectors, and each annotated line must appear verbatim, with multiplicity and relative order, in the output (~1.2k runs, ~1.8k annotated lines per quick run). 44 texts carrying `# pyrefact: skip_file` (own line, trailing, first/middle/last, inside a literal, invalid file, tabs) must come back byte-identical from format_code under 3 option vectors, must not be opened for writing by format_file and must be echoed by --from-stdin.",
        design_ref="DESIGN.md §4 C20",
        note="Every spelling of the comments that core.has_ignore_comment accepts; the line, not the statement, has to survive; --from-stdin must echo the text exactly.",
    ),
    "C01": dict(
        technique="runtime differential execution oracle: original and formatted program are both executed (stdout + termination compared) with attribution of a divergence to the first pipeline step (H-rule step trace) whose output behaves differently from its own input",
        category="exploration",
        text="Closed, deterministic, terminating programs composed of 2-6 rule-triggering idioms (37 parametric families: accumulation loops, dict loops, literal merges, if/else orientation, early return/continue, lambda/map/filter, comprehension forms, dead code, singleton comparisons, boolean logic, static methods, class attribute assignment, duplicate functions, imports, constants, context managers, zip/enumerate, defaultdict, loop hoisting, logging, numpy, ...) at module level, in functions, in methods and under `if __name__`, with tidy and untidy identifier styles, go through format_code under 8 option vectors (safe, keep_imports, line lengths, preserve half/all bound names); 630 programs per quick run (6000 + 2200 thorough), each executed before and after.",
        design_ref="DESIGN.md §4 C01",
        note="Programs of the generator only; stdout and normal termination only; attribution executes every text-changing step's input and output.",
    ),
    "C02": dict(
        technique="runtime differential execution oracle per rule: every pipeline rule is applied alone to every in-class program (and every text-changing step of format_code traces is judged against its own predecessor); both versions executed",
        category="exploration",
        text="Each of the 85 pipeline rules is called alone on ~620 in-class programs per quick run (14 draws of each of the 37 idiom families written from the rules' own patterns with parameters on and around their side conditions, plus 110 compositions; 140 draws and 1500 compositions in thorough): ~53k rule calls, ~6k of which change the text and are executed before/after; numpy rules run against the real numpy. The evidence names the rules that fired and the pipeline rules that never fired.",
        design_ref="DESIGN.md §4 C02",
        note="A rule's behaviour on shapes the generator does not produce is unobserved; 17 of 85 pipeline rules do not fire on the quick workload (listed in the evidence).",
    ),
    "C07": dict(
        technique="runtime post-condition monitor with two independent extractors: the module surface of the input (ast, the statement's own list) must be a subset of the names bound in the same scopes of format_code(safe=True)'s output (symtable, weakest reading); a lost name is attributed to the pipeline step that dropped it",
        category="exploration",
        text="5 hand-written untidy modules (unused / camelCase / private / duplicate / static / self-less definitions, class attributes in every style, `_` and dunder assignments, starred and chained targets, conditional definitions), 220 (1500) generated untidy programs, repository examples, the construct zoo and standard-library files go through format_code(safe=True), every second one right after an unsafe call on the same text in the same process (plus format_file(safe=True) and the CLI --safe on a sample); among the hand-written modules are six with a statement nothing gets past (raise SystemExit, assert False, while True, a raise in a class body) followed by more of the surface; ~3.5k surface names per quick run are checked.",
        design_ref="DESIGN.md §4 C07",
        note="Imports, loop and with targets are not surface; 'still defined' = bound in any way in the corresponding scope (so `x = f()` turned into `with f() as x:` is accepted).",
    ),
    "C08": dict(
        technique="runtime post-condition + differential execution: (a) format_code(library, preserve=P) over all subsets P of a name universe, preserved names must stay bound (symtable); (b) client programs are executed in a subprocess against the library before and after the library is formatted through format_files / the CLI with the client as preserved file",
        category="exploration",
        text="Generated libraries (constants, helper / camelCase / unused / duplicate functions, a class with __init__, methods, a self-less method, a static method and a class attribute, a spare class; random naming styles and spacing) are formatted with every subset of a 6-name universe plus random subsets of all 13 names (~220 format_code calls per quick run); 56 (240) client scenarios use a random subset of the library by from-import, import-as, module attribute, instance attribute and aliases, with library and client in the same or in different folders, 1 or 5 module passes, safe on/off, API and the real CLI (`python -m pyrefact lib.py --preserve client.py`): the client's stdout must be unchanged and every name it depends on still defined.",
        design_ref="DESIGN.md §4 C08",
        note="A preserved member name must survive only when its class is preserved too (left open by the statement); clients run in subprocesses with the scenario root on PYTHONPATH.",
    ),
    "C19": dict(
        technique="runtime differential execution + bytecode monitor: every naming rule is applied alone and inside format_code traces to programs with adversarial identifiers; both versions are executed (every binding printed) and the compiled code objects are compared up to a per-namespace bijective renaming (dis)",
        category="exploration",
        text="Generated programs bind names drawn from one word's camelCase / snake_case / Capitalised / UPPER / underscore variants, builtins, soft keywords and pyrefact's generated-name prefixes in 14 binding forms (assignment, augmented, def with keyword use, class and attribute, for / with / import-as / except-as targets, global, nonlocal, comprehension, del, lambda, walrus); half the programs give each form names of its own, half reuse names across forms; 12 hand-written collision probes put the would-be new name (an existing local, a builtin, an import, a sibling method, a keyword) beside the name to be renamed; plus the untidy idiom programs of C02, plus ~300 of these programs with `# pyrefact: ignore` on one line (a renaming that cannot touch a line must leave the binding alone). For the 10 renaming rules alone and every text-changing step of format_code: (1) stdout / exception class of both versions must agree; (2) when only identifiers changed, the instruction streams of all code objects must be equal up to a bijection per namespace, consistent between closures and globals, and no new name may be a keyword or builtin.",
        design_ref="DESIGN.md §4 C19",
        note="Programs are closed and deterministic; attribute renames are observed through execution (getattr / keyword use), not statically.",
    ),
    "C18": dict(
        technique="runtime differential execution in child processes: generated package trees on disk (G6 worlds); the original and every rewritten client run in fresh interpreters with the world on sys.path; a see(tag, obj) probe injected into builtins records what every used name resolves to (module name + file, defining module + qualified name, unique constant values) and the two event sequences are compared",
        category="exploration",
        text="64 (700 thorough) generated worlds x 8 (12) clients: plain modules, a package with __init__, a sub-module and a sub-package, re-export chains of depth 3 in every form (from / as / import / star, relative and absolute), __all__ in 8 syntactic forms, world names that shadow guessable imports (json, os, Path, Optional, queue, ...), a module importable only after a sys.path manipulation. Clients import in every statement form (plain, dotted, aliased, from, parenthesised, star, relative, stacked, duplicate, unused, __future__) at the top, after code, in if / try blocks, in functions and methods, as a script in the world root, as a module inside the package and as a package __init__ (format_file -> keep_imports). Entry points: each of the 8 import rules alone, format_code safe / default / keep_imports with step attribution, format_file. The rewritten client must produce the same exit status and the same (tag, descriptor) sequence.",
        design_ref="DESIGN.md §4 C18",
        note="pyrefact runs in the worker with cwd = world root; side effects of imports that are dropped are not compared; divergences attributed to a non-import rule are left to C01 (counted in the evidence).",
    ),
}

NOT_YET = {}


def main():
    props = [json.loads(l) for l in (VERIF / "properties.jsonl").read_text().splitlines() if l.strip()]
    checks, na = [], []
    for p in props:
        pid = p["id"]
        c = CHECKS.get(pid)
        if c is None:
            na.append({"property_id": pid, "reason": NOT_YET.get(pid, "no check registered yet: the monitor for this property is still being built (see DESIGN.md §4)")})
            continue
        checks.append({
            "property_id": pid,
            "quick_cmd": f"./check {pid} --tier quick",
            "thorough_cmd": f"./check {pid} --tier thorough",
            "evidence_file": f"evidence/{pid}.json",
            "replay_cmd_template": f"./check {pid} --replay {{path}}",
            "engine": "harness",
            "level_claimed": {"category": c["category"], "text": c["text"], "design_ref": c["design_ref"]},
            "level_note": c["note"],
            "technique": c["technique"],
        })
    manifest = {
        "version": 1,
        "setup_cmd": "./check setup",
        "hooks": {
            "guard": "PYREFACT_VERIF",
            "enable": "no source hooks: every monitor is a harness-side wrapper installed at import time in the worker processes (harness/hooks.py); workers set PYREFACT_VERIF=1 and import pyrefact from /repo's working tree",
            "baseline_off_cmd": "cd /repo && /venv/bin/python -m pytest -ra -q -p no:cacheprovider --timeout=900 --continue-on-collection-errors",
            "source_commits": [],
            "add_only": True,
        },
        "engines": [{
            "name": "harness",
            "path": "harness/",
            "serves_properties": [c["property_id"] for c in checks],
            "kind_free_text": "runtime monitoring: subprocess worker pool running the real pyrefact under generated/hostile workloads with wrapper hooks, reference models and an execution oracle",
        }],
        "checks": checks,
        "not_applicable": na,
        "notes": "Known findings: KNOWN_FINDINGS.txt (+ findings/<key>.json witnesses, harness/classify.py classifiers). Exit 2 = inconclusive. Workloads are seeded by VERIF_SEED (default 0); the committed evidence was written with VERIF_SEED=1, and seeds 0-2 of every quick tier and seed 1 of every thorough tier were run on the final tree (DESIGN.md 9). Deliberate breaks: mutants/, seeded/ (three rounds of independently written changes), results in selftest_results.json (tools/selftest.py).",
    }
    (VERIF / "MANIFEST.json").write_text(json.dumps(manifest, indent=1) + "\n")
    try:
        import jsonschema

        jsonschema.validate(manifest, json.load(open("/root/.vp/MANIFEST.schema.json")))
        print("MANIFEST.json valid;", len(checks), "checks,", len(na), "not yet claimed")
    except ImportError:
        print("written (jsonschema not importable here)")


if __name__ == "__main__":
    main()
