#!/venv/bin/python
"""Confirm and import seeded changes written by a sub-agent.

usage: tools/import_seeded.py /tmp/seed-N [...]

For every /tmp/seed-N/_seed/Cxx_k/{patch.diff,demo.py,meta.json}: in a scratch worktree of /repo HEAD (outside /repo and
/verif, removed afterwards) check that (a) the demo exits 0 on the clean tree, (b) the patch applies, (c) the demo exits 1
with it, (d) the pinned suite still reports 58 passed. Confirmed changes are copied to /verif/seeded/<Cxx_k>/ with the
confirmation recorded in meta.json; the others are listed with the reason.
"""
import json
import os
import pathlib
import shutil
import subprocess
import sys
import tempfile

VERIF = pathlib.Path(__file__).resolve().parent.parent
REPO = "/repo"


def sh(cmd, **kw):
    return subprocess.run(cmd, shell=True, text=True, stdout=subprocess.PIPE, stderr=subprocess.STDOUT, **kw)


def main():
    rows = []
    for seed_dir in sys.argv[1:]:
        # /tmp/seed-N (a sub-agent's worktree) or an already imported /verif/seeded/<id> directory (re-confirmation against the current HEAD)
        dirs = [pathlib.Path(seed_dir)] if (pathlib.Path(seed_dir) / "patch.diff").exists() else sorted(pathlib.Path(seed_dir, "_seed").glob("C*_*"))
        for d in dirs:
            if not (d / "patch.diff").exists() or not (d / "demo.py").exists():
                rows.append((d.name, "incomplete"))
                continue
            meta = json.loads((d / "meta.json").read_text()) if (d / "meta.json").exists() else {"property": d.name.split("_")[0]}
            wt = tempfile.mkdtemp(prefix="pyrefact-seedcheck-")
            os.rmdir(wt)
            r = sh(f"git -C {REPO} worktree add -q --detach {wt} HEAD")
            try:
                env = dict(os.environ, PYTHONPATH=wt)
                demo = str(d / "demo.py")
                clean = subprocess.run(["/venv/bin/python", demo], cwd=wt, env=env, text=True, stdout=subprocess.PIPE, stderr=subprocess.STDOUT, timeout=900)
                ap = sh(f"git -C {wt} apply --whitespace=nowarn {d / 'patch.diff'}")
                if ap.returncode:
                    rows.append((d.name, "patch does not apply: " + ap.stdout[-200:]))
                    continue
                broken = subprocess.run(["/venv/bin/python", demo], cwd=wt, env=env, text=True, stdout=subprocess.PIPE, stderr=subprocess.STDOUT, timeout=900)
                t = sh(f"cd {wt} && PYTHONPATH={wt} /venv/bin/python -m pytest -ra -q -p no:cacheprovider --timeout=900 --continue-on-collection-errors 2>&1 | tail -1")
                tests = t.stdout.strip().splitlines()[-1] if t.stdout.strip() else "?"
                ok = clean.returncode == 0 and broken.returncode == 1 and "58 passed" in tests
                verdict = f"clean rc={clean.returncode} changed rc={broken.returncode} tests={tests}"
                if ok:
                    dest = VERIF / "seeded" / (d.name + (os.environ.get("SEED_SUFFIX", "") if d.parent.name == "_seed" else ""))
                    dest.mkdir(parents=True, exist_ok=True)
                    if dest.resolve() != d.resolve():
                        shutil.copy(d / "patch.diff", dest / "patch.diff")
                        shutil.copy(d / "demo.py", dest / "demo.py")
                    meta["confirmed"] = {"demo_on_clean_tree": clean.stdout.strip().splitlines()[-1][:300] if clean.stdout.strip() else "",
                                         "demo_with_change": broken.stdout.strip().splitlines()[-1][:500] if broken.stdout.strip() else "", "pinned_tests_with_change": tests,
                                         "repo_head": sh(f"git -C {REPO} rev-parse --short HEAD").stdout.strip()}
                    (dest / "meta.json").write_text(json.dumps(meta, indent=1) + "\n")
                rows.append((d.name, ("CONFIRMED " if ok else "REJECTED ") + verdict))
            finally:
                sh(f"git -C {REPO} worktree remove --force {wt}")
                shutil.rmtree(wt, ignore_errors=True)
    for name, what in rows:
        print(f"{name:10s} {what}")


if __name__ == "__main__":
    main()
