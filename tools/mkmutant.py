import subprocess, sys, os, tempfile, shutil
def mk(name, prop, note, edits):
    wt=tempfile.mkdtemp(prefix="pyrefact-mk-"); os.rmdir(wt)
    subprocess.run(f"git -C /repo worktree add -q --detach {wt} HEAD", shell=True, check=True)
    try:
        for path, old, new in edits:
            p=os.path.join(wt,path); s=open(p).read()
            assert s.count(old)==1, (name, path, s.count(old), old[:60])
            open(p,'w').write(s.replace(old,new))
        d=subprocess.run(f"git -C {wt} diff", shell=True, capture_output=True, text=True).stdout
        assert d.strip()
        open(f"/verif/mutants/{name}.diff","w").write(f"# property: {prop}\n# {note}\n"+d)
        print("wrote", name)
    finally:
        subprocess.run(f"git -C /repo worktree remove --force {wt}", shell=True)
        shutil.rmtree(wt, ignore_errors=True)
