import sys, json, shutil, subprocess, os, tempfile
sys.path.insert(0,'/verif/tools')
import mkmutant
def rebase(seed_id, edits, note):
    d=f"/verif/seeded/{seed_id}"
    if not os.path.exists(d+"/patch.orig.diff"):
        shutil.copy(d+"/patch.diff", d+"/patch.orig.diff")
    mkmutant.mk("_tmp_rebase","X",note,edits)
    body="".join(l for l in open("/verif/mutants/_tmp_rebase.diff") if not l.startswith("# "))
    open(d+"/patch.diff","w").write(body)
    os.remove("/verif/mutants/_tmp_rebase.diff")
    m=json.load(open(d+"/meta.json"))
    m["rebased"]={"why":"a later repair of the repository touched the same lines, so the sub-agent's patch (kept as patch.orig.diff) no longer applied; the same mistake was re-made on the repaired code by the verifier","note":note,
                  "repo_head":subprocess.run("git -C /repo rev-parse --short HEAD",shell=True,capture_output=True,text=True).stdout.strip()}
    json.dump(m,open(d+"/meta.json","w"),indent=1)
if __name__=="__main__":
    rebase("C13_2",[("pyrefact/core.py",'''        if at_sign:
            start_charno = at_sign.start()''','''        if at_sign and at_sign.start() > 0:
            start_charno = at_sign.start()''')],"off-by-one guard: the @ of a decorator at offset 0 of the source is not included in the span")
