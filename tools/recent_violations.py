#!/venv/bin/python
"""Development aid: summarise the replay files of a check written in the last N minutes. usage: tools/recent_violations.py C16 [minutes]"""
import collections
import json
import pathlib
import re
import sys
import time

prop = sys.argv[1]
minutes = float(sys.argv[2]) if len(sys.argv) > 2 else 10
root = pathlib.Path(__file__).resolve().parent.parent / "replays" / prop
c = collections.Counter()
ex = {}
for f in root.glob("*.json"):
    if time.time() - f.stat().st_mtime > minutes * 60:
        continue
    d = json.loads(f.read_text())
    rec = d.get("record") or d
    det = rec.get("detail") if isinstance(rec.get("detail"), dict) else {}
    key = (rec.get("kind"), rec.get("rule"), re.sub(r"\[(top|if|loop|else)\]", "", str(det.get("shape") or det.get("idioms") or det.get("label") or ""))[:110])
    c[key] += 1
    ex.setdefault(key, f.name)
for k, n in sorted(c.items(), key=lambda kv: str(kv[0])):
    print(n, *k, ex[k])
