#!/venv/bin/python
"""Re-create the patches of deliberate breaks that no longer apply to /repo HEAD because a later repair moved or touched their context.

For every mutants/*.diff and seeded/*/patch.diff that `git apply` refuses: try `git apply --3way`, then `patch --fuzz=3`; when one of them
applies without conflicts, the diff of the result replaces the patch (seeded: the original is kept as patch.orig.diff and meta.json says so).
The others are listed: they need the mistake to be re-made by hand (tools/rebase_seeded.py).
"""
import json
import os
import pathlib
import shutil
import subprocess
import sys
import tempfile

VERIF = pathlib.Path(__file__).resolve().parent.parent


def sh(cmd, **kw):
    return subprocess.run(cmd, shell=True, text=True, stdout=subprocess.PIPE, stderr=subprocess.STDOUT, **kw)


def main():
    wt = tempfile.mkdtemp(prefix="pyrefact-refresh-")
    os.rmdir(wt)
    sh(f"git -C /repo worktree add -q --detach {wt} HEAD")
    head = sh("git -C /repo rev-parse --short HEAD").stdout.strip()
    todo = []
    try:
        for patch in sorted(VERIF.glob("mutants/*.diff")) + sorted(VERIF.glob("seeded/*/patch.diff")):
            name = patch.stem if patch.name != "patch.diff" else "seeded/" + patch.parent.name
            text = patch.read_text()
            header = "".join(l + "\n" for l in text.splitlines() if l.startswith("# "))
            body = "\n".join(l for l in text.splitlines() if not l.startswith("# ")) + "\n"
            tmp = pathlib.Path(wt) / ".patch"
            tmp.write_text(body)
            if sh(f"git -C {wt} apply --check --whitespace=nowarn {tmp}").returncode == 0:
                continue
            ok = False
            for cmd in (f"git -C {wt} apply --3way --whitespace=nowarn {tmp}", f"cd {wt} && patch -p1 --fuzz=3 --no-backup-if-mismatch -i {tmp}"):
                sh(f"git -C {wt} checkout -q -- . && git -C {wt} clean -fdq -e .patch")
                r = sh(cmd)
                status = sh(f"git -C {wt} status --porcelain").stdout
                conflict = any(l[:2] in ("UU", "AA", "DU", "UD") for l in status.splitlines()) or "<<<<<<<" in sh(f"git -C {wt} diff").stdout
                if r.returncode == 0 and not conflict and not list(pathlib.Path(wt).rglob("*.rej")):
                    ok = True
                    break
            if ok:
                sh(f"git -C {wt} reset -q")
                diff = sh(f"git -C {wt} diff -- pyrefact").stdout
                if patch.name == "patch.diff":
                    orig = patch.parent / "patch.orig.diff"
                    if not orig.exists():
                        shutil.copy(patch, orig)
                    meta = patch.parent / "meta.json"
                    m = json.loads(meta.read_text())
                    m.setdefault("refreshed", []).append({"repo_head": head, "why": "context moved by later repairs; re-applied with a three-way merge / fuzz, same edit"})
                    meta.write_text(json.dumps(m, indent=1) + "\n")
                patch.write_text(header + diff)
                print(f"refreshed {name}")
            else:
                todo.append(name)
                print(f"NEEDS HAND WORK {name}")
            sh(f"git -C {wt} checkout -q -- . && git -C {wt} clean -fdq")
    finally:
        sh(f"git -C /repo worktree remove --force {wt}")
        shutil.rmtree(wt, ignore_errors=True)
    return 1 if todo else 0


if __name__ == "__main__":
    sys.exit(main())
