#!/venv/bin/python
"""Apply each deliberate break (mutants/*.diff, seeded/*/patch.diff) to a scratch worktree of /repo, run the pinned
tests there (must stay green) and the quick check of the targeted property (must exit 1 with a VIOLATION line).

usage: tools/selftest.py [--tests] [--thorough] [--jobs=N] [--write [--merge]] [name-substring ...]
"""
import json
import os
import pathlib
import re
import subprocess
import sys
import tempfile
import shutil

VERIF = pathlib.Path(__file__).resolve().parent.parent
REPO = "/repo"
GIT_LOCK = __import__("threading").Lock()


def sh(cmd, **kw):
    return subprocess.run(cmd, shell=True, text=True, stdout=subprocess.PIPE, stderr=subprocess.STDOUT, **kw)


def targets(path):
    props = []
    if path.name == "patch.diff":
        meta = path.parent / "meta.json"
        if meta.exists():
            m = json.loads(meta.read_text())
            if str(m.get("status", "")).startswith("neutralised"):
                return []  # no longer observable on the current tree (see status_note)
            p = m.get("property") or m.get("properties")
            props = [p] if isinstance(p, str) else list(p or [])
            props += [x for x in m.get("also_caught_by", []) if x not in props]
    else:
        for line in path.read_text().splitlines()[:5]:
            m = re.match(r"#\s*propert(?:y|ies):\s*(.*)", line)
            if m:
                props = m.group(1).replace(",", " ").split()
    return props


def main():
    args = [a for a in sys.argv[1:] if not a.startswith("--")]
    run_tests = "--tests" in sys.argv
    tier = "thorough" if "--thorough" in sys.argv else "quick"
    patches = sorted(VERIF.glob("mutants/*.diff")) + sorted(VERIF.glob("seeded/*/patch.diff"))
    if args:
        patches = [p for p in patches if any(a in str(p) for a in args)]
    def one(patch):
        rows = []
        name = patch.stem if patch.name != "patch.diff" else "seeded/" + patch.parent.name
        if not targets(patch):
            print(f"{name:55s} -   skipped (no target property / neutralised)", flush=True)
            rows.append((name, "-", "neutralised"))
            return rows
        wt = tempfile.mkdtemp(prefix="pyrefact-mut-")
        os.rmdir(wt)
        with GIT_LOCK:
            r = sh(f"git -C {REPO} worktree add -q --detach {wt} HEAD")
        try:
            if r.returncode:
                rows.append((name, "-", "worktree failed: " + r.stdout[-200:]))
                return rows
            body = "\n".join(l for l in patch.read_text().splitlines() if not l.startswith("# ")) + "\n"
            r = subprocess.run(["git", "-C", wt, "apply", "--whitespace=nowarn", "-"], input=body, text=True,
                               stdout=subprocess.PIPE, stderr=subprocess.STDOUT)
            if r.returncode:
                rows.append((name, "-", "patch does not apply: " + r.stdout[-300:]))
                print(f"{name:55s} -   PATCH DOES NOT APPLY to the current HEAD (regenerate it)", flush=True)
                return rows
            tests = "skipped"
            if run_tests:
                t = sh(f"cd {wt} && PYTHONPATH={wt} /venv/bin/python -m pytest -q -p no:cacheprovider --timeout=900 -x 2>&1 | tail -1")
                tests = t.stdout.strip().splitlines()[-1] if t.stdout.strip() else "?"
            for prop in targets(patch):
                env = dict(os.environ, VERIF_REPO=wt, VERIF_TIER=tier, VERIF_OUT_DIR=wt + "/.verif-out")
                c = subprocess.run([str(VERIF / "check"), prop], env=env, text=True, stdout=subprocess.PIPE, stderr=subprocess.STDOUT)
                viol = [l for l in c.stdout.splitlines() if l.startswith("VIOLATION")]
                kinds = sorted({l.strip().split()[0] for l in c.stdout.splitlines() if l.strip().startswith("kind=")})
                status = "CAUGHT" if c.returncode == 1 and viol else f"MISSED(rc={c.returncode})"
                rows.append((name, prop, f"{status} tests={tests} {' '.join(kinds)[:120]}"))
                print(f"{name:55s} {prop} {status} tests={tests} {' '.join(kinds)[:100]}", flush=True)
        finally:
            with GIT_LOCK:
                sh(f"git -C {REPO} worktree remove --force {wt}")
            shutil.rmtree(wt, ignore_errors=True)
        return rows

    jobs = next((int(a.split('=')[1]) for a in sys.argv if a.startswith('--jobs=')), 1)
    import concurrent.futures
    with concurrent.futures.ThreadPoolExecutor(jobs) as ex:
        rows = [r for rs in ex.map(one, patches) for r in rs]
    # restore evidence written by mutant runs is the caller's business (evidence is rewritten by the next real run)
    if "--write" in sys.argv:
        out = []
        for name, prop, what in rows:
            src = VERIF / ((name + "/patch.diff") if name.startswith("seeded/") else f"mutants/{name}.diff")
            note = ""
            if name.startswith("seeded/"):
                meta = src.parent / "meta.json"
                if meta.exists():
                    m = json.loads(meta.read_text())
                    note = m.get("title", "")
                    if str(m.get("status", "")).startswith("neutralised"):
                        what = "neutralised by a later repair of the repository (see meta.json)"
            else:
                lines = src.read_text().splitlines()[:3] if src.exists() else []
                note = next((l[2:] for l in lines if l.startswith("# ") and not l.startswith("# propert")), "")
            out.append({"change": name, "property": prop, "result": what, "what": note})
        if "--merge" in sys.argv and (VERIF / "selftest_results.json").exists():
            # a partial run: its rows replace those of the same changes in the recorded results
            old = json.loads((VERIF / "selftest_results.json").read_text())["rows"]
            names = {r["change"] for r in out}
            out = sorted([r for r in old if r["change"] not in names] + out, key=lambda r: (r["change"].startswith("seeded/"), r["change"], r["property"]))
        (VERIF / "selftest_results.json").write_text(json.dumps({"repo_head": sh(f"git -C {REPO} rev-parse --short HEAD").stdout.strip(), "tier": tier, "rows": out}, indent=1) + "\n")
    missed = [r for r in rows if "CAUGHT" not in r[2] and "neutralised" not in r[2]]
    print(f"\n{len(rows) - len(missed)}/{len(rows)} caught")
    return 1 if missed else 0


if __name__ == "__main__":
    sys.exit(main())
