#!/venv/bin/python
"""Print compact examples of unlisted violations from replays/<prop>/ grouped by rule. usage: tools/triage.py C02 [rule-substring] [n]"""
import collections
import glob
import json
import sys

prop = sys.argv[1]
sub = sys.argv[2] if len(sys.argv) > 2 else ""
n = int(sys.argv[3]) if len(sys.argv) > 3 else 2
by = collections.defaultdict(list)
for f in sorted(glob.glob(f"/verif/replays/{prop}/*.json")):
    r = json.load(open(f))
    d = r.get("detail") or {}
    rule = d.get("attributed_rule") or r.get("rule")
    by[str(rule)].append((f, r))
for rule, items in sorted(by.items(), key=lambda kv: -len(kv[1])):
    if sub not in rule:
        continue
    print("=" * 110)
    print(rule, len(items))
    for f, r in items[:n]:
        d = r["detail"]
        print("--", f.split("/")[-1], d.get("idioms"), "trace" if d.get("in_pipeline_trace") else "")
        print(d.get("text_diff") or (r.get("input", "")[-500:] + "\n=>\n" + str(d.get("after") or d.get("out") or r.get("after"))[-500:]))
        print("   stdout diff:", d.get("first_difference"), "| after_status:", d.get("after_status"))
