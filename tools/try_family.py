#!/venv/bin/python
"""Development aid: run the C02 worker on draws of one idiom family in this process and print what it finds.

usage: tools/try_family.py <family> [draws] [--classify]
"""
import os
import pathlib
import sys

VERIF = pathlib.Path(__file__).resolve().parent.parent
sys.path.insert(0, str(VERIF))
os.environ.setdefault("PYREFACT_VERIF", "1")
from harness import env  # noqa: E402

sys.path.insert(0, str(env.REPO)) if hasattr(env, "REPO") else None
from harness.checks import c02  # noqa: E402
from harness.gen import programs  # noqa: E402


def _safe(fn, v):
    try:
        return fn(v)
    except Exception:
        return False


def main():
    fam = sys.argv[1]
    n = int(sys.argv[2]) if len(sys.argv) > 2 and sys.argv[2].isdigit() else 20
    cases = []
    for i in range(n):
        for tag, wrap in (("G2", None), ("G2m", "module")):
            text, names = programs.program((env.seed(), tag, fam, i), n_idioms=1, only=fam, wrap=wrap)
            cases.append({"id": f"{tag}:{fam}:{i}", "text": text, "idioms": names, "options": {}})
    res = c02.w_rules({"cases": cases})
    print({k: res[k] for k in ("programs", "in_class", "rejects", "changed", "reject_reasons")}, res["fired"])
    seen = set()
    for v in res["violations"]:
        key = (v["rule"], v["detail"]["text_diff"])
        if key in seen:
            continue
        seen.add(key)
        if "--classify" in sys.argv:
            from harness import classify
            print("classified as:", [k for k, fn in classify.CLASSIFIERS.items() if _safe(fn, v)])
        print("----", v["rule"], v["detail"]["after_status"], v["detail"]["first_difference"])
        print(v["detail"]["text_diff"])
    print(len(res["violations"]), "violations,", len(seen), "distinct")


main()
