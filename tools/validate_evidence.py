#!/opt/veriftools/pyvenv/bin/python
"""Validates MANIFEST.json and every evidence/*.json against the schemas in /root/.vp (run with python3-vt: jsonschema lives in the tooling venv)."""
import glob
import json
import pathlib
import sys

import jsonschema

VERIF = pathlib.Path(__file__).resolve().parent.parent
bad = 0
jsonschema.validate(json.loads((VERIF / "MANIFEST.json").read_text()), json.load(open("/root/.vp/MANIFEST.schema.json")))
schema = json.load(open("/root/.vp/EVIDENCE.schema.json"))
for f in sorted(glob.glob(str(VERIF / "evidence" / "*.json"))):
    try:
        jsonschema.validate(json.load(open(f)), schema)
    except jsonschema.ValidationError as exc:
        bad += 1
        print("INVALID", f, str(exc)[:300])
print("manifest ok;", len(glob.glob(str(VERIF / "evidence" / "*.json"))), "evidence files,", bad, "invalid")
sys.exit(1 if bad else 0)
